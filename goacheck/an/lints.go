package an

import (
	"fmt"
	"go/ast"
	"go/token"
	"go/types"
	"golang.org/x/tools/go/packages"
	"reflect"
	"regexp"
	"sort"
	"strconv"
	"strings"
)

// LintHit is one finding of the control-flow lints (AllLints): stale search
// flags, stale per-iteration variables, seen-set key mismatches, dropped
// recursion guards, in-place slice reuse. Construct is "<func>#<kind>(<var>)".
type LintHit struct {
	Kind      string
	Construct string
	Pos       token.Pos
	Msg       string
}

// AllLints runs every control-flow lint on f.
// ReviewedLint is consulted for every hit: a hit of kind in f that was read and found intended is dropped
// (set by package props, which owns the reviewed table and knows the reference name of f).
var ReviewedLint = func(kind string, f *Func) bool { return false }

func AllLints(f *Func) (hits []LintHit) {
	// a lint that cannot cope with a construct must not take the whole check down with it (and hide what the other
	// rules have to say): it is reported as a hit of its own, which fails the check all the same
	defer func() {
		if r := recover(); r != nil {
			hits = append(hits, LintHit{"crash", f.Name + "#lint-crash", f.Decl.Pos(), fmt.Sprintf("a deviance lint failed on this function (%v): the function is not decided", r)})
		}
	}()
	all := allLints(f)
	var out []LintHit
	for _, h := range all {
		if !ReviewedLint(h.Kind, f) {
			out = append(out, h)
		}
	}
	return out
}

func allLints(f *Func) []LintHit {
	var out []LintHit
	pos := func(p token.Pos) string { return f.Pkg.Fset.Position(p).String() }
	for _, sf := range StaleFlags(f) {
		out = append(out, LintHit{"flag", fmt.Sprintf("%s#flag(%s)", f.Name, sf.Var.Name()), sf.Set.Pos(),
			fmt.Sprintf("search flag %s is set in an inner loop and tested at %s in the enclosing loop without being reset per iteration: after the first hit every later iteration is treated as a hit", sf.Var.Name(), pos(sf.Read.Pos()))})
	}
	for _, sv := range StaleLoopVars(f) {
		out = append(out, LintHit{"var", fmt.Sprintf("%s#var(%s)", f.Name, sv.Var.Name()), sv.Set.Pos(),
			fmt.Sprintf("per-iteration variable %s is assigned conditionally inside the loop but declared outside it; its read at %s can see the previous iteration's value", sv.Var.Name(), pos(sv.Read.Pos()))})
	}
	for _, m := range MemoKeyMismatches(f) {
		out = append(out, LintHit{"memo", fmt.Sprintf("%s#memo(%s)", f.Name, m.Map.Name()), m.Store.Pos(),
			fmt.Sprintf("set %s is tested under key %s but filled under key %s%s", m.Map.Name(), types.ExprString(m.Lookup), types.ExprString(m.Store), sameTextNote(m.Lookup, m.Store))})
	}
	for _, p := range SelfRecursionDrops(f) {
		out = append(out, LintHit{"recursion", f.Name + "#recursion-guard", f.Decl.Pos(), p})
	}
	for _, sr := range SliceReuses(f) {
		out = append(out, LintHit{"slice", fmt.Sprintf("%s#slice(%s)", f.Name, sr.Var.Name()), sr.Reset.Pos(),
			fmt.Sprintf("slice %s is truncated in place and stored in the same loop: every stored value shares one backing array", sr.Var.Name())})
	}
	for _, sa := range SwappedArgs(f) {
		out = append(out, LintHit{"swap", fmt.Sprintf("%s#swap(%s:%s,%s)", f.Name, sa.Callee, sa.A, sa.B), sa.Call.Pos(),
			fmt.Sprintf("the call to %s passes %s where its parameter %s is expected and %s where %s is expected (same type, so it compiles)", sa.Callee, sa.A, sa.B, sa.B, sa.A)})
	}
	if _, gms := GuardFieldMismatches(f); len(gms) > 0 {
		for _, g := range gms {
			out = append(out, LintHit{"guardfield", fmt.Sprintf("%s#guard(%s→%s)", f.Name, g.Guard, g.Field), g.If.Pos(),
				fmt.Sprintf("field %s is taken from the other value when field %s is unset: the merge guard tests a different field than the one it fills", g.Field, g.Guard)})
		}
	}
	for _, is := range RetryOnces(f) {
		out = append(out, LintHit{"retryonce", fmt.Sprintf("%s#retry(%s)", f.Name, Src(f.Pkg.Fset, is.Cond)), is.Pos(),
			fmt.Sprintf("`if %s` recomputes its own argument from an incremented counter once; a clash of the recomputed value is not re-tested (the idiom is a for loop)", Src(f.Pkg.Fset, is.Cond))})
	}
	for _, g := range GuardVarMismatches(f) {
		out = append(out, LintHit{"guardvar", fmt.Sprintf("%s#guard(%s/%s)", f.Name, g.Tested, g.By), g.If.Pos(),
			fmt.Sprintf("%s is defined by the preceding statement and used in the body, but the guard tests %s, which the body never uses", g.By, g.Tested)})
	}
	for _, se := range SwallowedErrors(f) {
		out = append(out, LintHit{"swallow", fmt.Sprintf("%s#swallow(%s)", f.Name, se.Err.Name()), se.Ret.Pos(),
			fmt.Sprintf("the function returns nil in the branch where %s is non-nil and never looks at it: the failure is reported as success (a stop sentinel or a real error is dropped)", se.Err.Name())})
	}
	if _, cs := CopySlips(f); len(cs) > 0 {
		for _, x := range cs {
			out = append(out, LintHit{"copyslip", fmt.Sprintf("%s#copy(%s:%s)", f.Name, x.Field, x.Has), x.Pos,
				fmt.Sprintf("field %s is filled from %s although the sibling fields of its family are filled from %s where the parallel family uses %s: an identifier left unrenamed after copying the block", x.Field, x.Has, x.Want, x.Has)})
		}
	}
	for _, x := range IndexSpaceMixes(f) {
		out = append(out, LintHit{"idxspace", fmt.Sprintf("%s#index(%s/%s)", f.Name, x.Var, x.Base), x.Use.Pos(),
			fmt.Sprintf("%s indexes the re-sliced range `%s` (it counts from the slice's low bound) but `%s` treats it as an index of %s itself: the wrong pair of elements is compared or read", x.Var, Src(f.Pkg.Fset, x.Inner.X), Src(f.Pkg.Fset, x.Use), x.Base)})
	}
	for _, w := range SeqParityWords {
		for _, x := range SeqParity(f, w[0], w[1]) {
			out = append(out, LintHit{"seqparity", fmt.Sprintf("%s#order(%s.%s/%s.%s)", f.Name, x.VarA, x.Method, x.VarB, x.Method), x.Pos,
				fmt.Sprintf("%s receives its %s calls in the order [%s] but its sibling %s in the order [%s]: a later call wins, so the two families resolve a clash between the same sources differently", x.VarA, x.Method, strings.Join(x.SeqA, "; "), x.VarB, strings.Join(x.SeqB, "; "))})
		}
	}
	for _, x := range CloneConds(f) {
		out = append(out, LintHit{"clonecond", fmt.Sprintf("%s#clone(%s)", f.Name, x.Cond), x.If.Pos(),
			fmt.Sprintf("`if %s` guards a block that is repeated verbatim %d more times in this function under `if %s`: the same operands with another constant or operator", x.Cond, x.Clones, x.Majority)})
	}
	for _, x := range LookupBypasses(f) {
		out = append(out, LintHit{"bypass", fmt.Sprintf("%s#bypass(%s:%s.%s)", f.Name, x.Var, x.Recv, x.Sel), x.Use.Pos(),
			fmt.Sprintf("%s is looked up in %s and only compared with nil; the code then asks %s.%s although %s has %s too: the question is answered by the container instead of the element just found", x.Var, x.Recv, x.Recv, x.Sel, x.Var, x.Sel)})
	}
	for _, x := range AliasStores(f) {
		out = append(out, LintHit{"aliasstore", fmt.Sprintf("%s#alias(%s.%s)", f.Name, x.Var, x.Field), x.Store.Pos(),
			fmt.Sprintf("%s comes from %s, which hands its argument's %s over as is; the element store `%s` therefore writes into the original's %s as well", x.Var, x.Copier, x.Field, Src(f.Pkg.Fset, x.Store), x.Field)})
	}
	for _, x := range ConsumedArgs(f) {
		out = append(out, LintHit{"consumedarg", fmt.Sprintf("%s#consumed(%s:%s)", f.Name, x.Callee, x.Arg), x.Call.Pos(),
			fmt.Sprintf("%s reads an entry of %s and deletes it, and is called here in a loop with the same %s on every iteration: the first call finds the entry, the later ones find nothing", x.Callee, x.Map, x.Arg)})
	}
	for _, x := range LastWinsFlags(f) {
		out = append(out, LintHit{"lastwins", fmt.Sprintf("%s#lastwins(%s)", f.Name, x.Var.Name()), x.Assign.Pos(),
			fmt.Sprintf("%s is assigned a value computed from the loop element on every iteration, is never tested inside the loop and is read after it: only the last element decides although the flag answers whether any (or every) element has the quality", x.Var.Name())})
	}
	for _, x := range UnusedIndexGuards(f) {
		out = append(out, LintHit{"guardidx", fmt.Sprintf("%s#guardidx(%s)", f.Name, x.Var.Name()), x.If.Pos(),
			fmt.Sprintf("the guard establishes that %s is a valid position (%s) and the body indexes a sequence, but never with %s: another element than the one found is read or moved", x.Var.Name(), Src(f.Pkg.Fset, x.If.Cond), x.Var.Name())})
	}
	for _, x := range WrongSides(f) {
		out = append(out, LintHit{"wrongside", fmt.Sprintf("%s#side(%s)", f.Name, x.Has), x.Sel.Pos(),
			fmt.Sprintf("a method of %s reads %s although the same struct has %s: the flag of the other side decides a matter of this side", types.ExprString(f.Decl.Recv.List[0].Type), x.Has, x.Twin)})
	}
	for _, x := range PositionalMismatches(f) {
		out = append(out, LintHit{"posfield", fmt.Sprintf("%s#positional(%s→%s)", f.Name, x.Value, x.Into), x.Lit.Pos(),
			fmt.Sprintf("the unkeyed struct literal puts %s at the position of field %s although the struct has a field of that very name elsewhere: the two values are swapped (same type, so it compiles)", x.Value, x.Into)})
	}
	for _, r := range RawAfterNormaliseds(f) {
		out = append(out, LintHit{"rawname", fmt.Sprintf("%s#raw(%s→%s)", f.Name, r.Raw, r.Use), r.Call.Pos(),
			fmt.Sprintf("the block computes the attribute name as the part of %s before the separator, then passes the raw %s to %s: for a mapped \"attr:element\" pair the lookup misses", r.Raw, r.Raw, r.Use)})
	}
	for _, ic := range InvariantCalls(f) {
		out = append(out, LintHit{"invariant", fmt.Sprintf("%s#invariant(%s)", f.Name, Src(f.Pkg.Fset, ic)), ic.Pos(),
			fmt.Sprintf("`%s` is called for its effect in a loop but no argument depends on the iteration: each pass repeats the same effect on the same target and the per-iteration value is left untouched", Src(f.Pkg.Fset, ic))})
	}
	for _, u := range UnguardedMapStores(f) {
		out = append(out, LintHit{"mapstore", fmt.Sprintf("%s#store(%s[%s])", f.Name, u.Map, Src(f.Pkg.Fset, u.Store.Lhs[0].(*ast.IndexExpr).Index)), u.Store.Pos(),
			fmt.Sprintf("`%s` replaces the entry unconditionally, while another store to %s in this function first looks the key up and only creates the entry when absent: an entry filled there is overwritten here", Src(f.Pkg.Fset, u.Store), u.Map)})
	}
	for _, d := range DupBranches(f) {
		out = append(out, LintHit{"dupbranch", fmt.Sprintf("%s#case(%s)", f.Name, Src(f.Pkg.Fset, d.Second.(*ast.CaseClause).List[0])), d.Second.Pos(),
			fmt.Sprintf("the arms `case %s` and `case %s` of one switch have the same body (%s): one was pasted and not adapted", Src(f.Pkg.Fset, d.First.(*ast.CaseClause).List[0]), Src(f.Pkg.Fset, d.Second.(*ast.CaseClause).List[0]), d.Body)})
	}
	for _, ss := range SelfSearches(f) {
		out = append(out, LintHit{"selfsearch", fmt.Sprintf("%s#selfsearch(%s)", f.Name, Src(f.Pkg.Fset, ss.Outer.X)), ss.Inner.Pos(),
			fmt.Sprintf("the elements of %s are searched for in %s itself: every element finds itself, the search cannot fail", Src(f.Pkg.Fset, ss.Outer.X), Src(f.Pkg.Fset, ss.Inner.X))})
	}
	for _, g := range TwinGuards(f) {
		out = append(out, LintHit{"twinguard", fmt.Sprintf("%s#guard(%s/%s)", f.Name, g.Tested, g.By), g.If.Pos(),
			fmt.Sprintf("this guard repeats the preceding statement's test of %s, but its body works on %s and never mentions %s", g.Tested, g.By, g.Tested)})
	}
	// JSON schemas describe the values of a map only (its keys are strings): the schema builders are exempt
	if _, hw := HalfMapWalks(f); len(hw) > 0 && !strings.HasPrefix(f.Name, "http/codegen/openapi") {
		for _, h := range hw {
			out = append(out, LintHit{"mapwalk", fmt.Sprintf("%s#map-arm(%s only)", f.Name, h.Visited), h.Clause.Pos(),
				fmt.Sprintf("the map arm of this recursive walker recurses into %s only: the other half of every map (its %s) is never visited", h.Visited, map[string]string{"KeyType": "values", "ElemType": "keys"}[h.Visited])})
		}
	}
	for _, l := range LazyInitExtras(f) {
		out = append(out, LintHit{"lazyinit", fmt.Sprintf("%s#lazyinit(%s)", f.Name, Src(f.Pkg.Fset, l.Call)), l.Call.Pos(),
			fmt.Sprintf("`%s` sits inside the block that creates %s when it is nil: it is skipped whenever the value already exists", Src(f.Pkg.Fset, l.Call), Src(f.Pkg.Fset, l.If.Cond.(*ast.BinaryExpr).X))})
	}
	for _, sc := range ShallowCopies(f) {
		out = append(out, LintHit{"shallow", fmt.Sprintf("%s#shallow(%s)", f.Name, sc.Field), sc.Pos,
			fmt.Sprintf("the copy takes field %s from the source as is although %s has a duplicator of its own: copy and original share the %s values, and a change made through one is seen through the other", sc.Field, sc.Elem, sc.Elem)})
	}
	for _, g := range LateGuardMarks(f) {
		out = append(out, LintHit{"lateguard", fmt.Sprintf("%s#lateguard(%s)", f.Name, g.Map), g.Store.Pos(),
			fmt.Sprintf("the visited set %s is updated after the recursive descent in the same block: a cycle re-enters the function before the element is recorded and recursion does not terminate", g.Map)})
	}
	// ParallelAppends is not armed: "filled in lock step" cannot be told apart from two lists that merely share a block (6 false reports on the reference tree).
	for _, ts := range UserTypeOnlySwitches(f) {
		out = append(out, LintHit{"utswitch", fmt.Sprintf("%s#typeswitch(%s)", f.Name, Src(f.Pkg.Fset, ts.Assign)), ts.Pos(),
			"the type switch has an arm for *UserTypeExpr but none for *ResultTypeExpr or the UserType interface: result types are not handled by it"})
	}
	for _, u := range UseAfterPuts(f) {
		out = append(out, LintHit{"afterput", fmt.Sprintf("%s#afterput(%s)", f.Name, u.Name), u.Use.Pos(),
			fmt.Sprintf("%s is used after the value was returned to its sync.Pool: another goroutine may already be writing to it", u.Name)})
	}
	for _, bb := range BareBreaks(f) {
		cond := Src(f.Pkg.Fset, bb.If.Cond)
		if bb.If.Init != nil {
			cond = Src(f.Pkg.Fset, bb.If.Init) + "; " + cond
		}
		out = append(out, LintHit{"break", fmt.Sprintf("%s#break(%s)", f.Name, cond), bb.If.Pos(),
			fmt.Sprintf("`if %s { break }` abandons the loop at the first element that fails the filter; every later element is dropped (the skip idiom is continue)", Src(f.Pkg.Fset, bb.If.Cond))})
	}
	return out
}

// BareBreak is an `if cond { break }` (nothing else in the body) directly in
// the body of a range loop, before any statement of the iteration that records
// a result: the loop is abandoned at the first element satisfying cond. The
// idiom for skipping an element is `continue`.
type BareBreak struct {
	If   *ast.IfStmt
	Loop *ast.RangeStmt
}

// BareBreaks lists the bare breaks of f whose condition only inspects the
// current element (mentions a loop variable and no variable assigned in the
// loop).
func BareBreaks(f *Func) []BareBreak {
	info := f.Pkg.TypesInfo
	var out []BareBreak
	ast.Inspect(f.Decl.Body, func(n ast.Node) bool {
		rs, ok := n.(*ast.RangeStmt)
		if !ok {
			return true
		}
		loopVars := map[types.Object]bool{}
		for _, e := range []ast.Expr{rs.Key, rs.Value} {
			if id, ok := e.(*ast.Ident); ok && id.Name != "_" {
				if o := info.Defs[id]; o != nil {
					loopVars[o] = true
				}
			}
		}
		assigned := map[types.Object]bool{}
		ast.Inspect(rs.Body, func(m ast.Node) bool {
			switch x := m.(type) {
			case *ast.AssignStmt:
				for _, l := range x.Lhs {
					if id, ok := l.(*ast.Ident); ok {
						if o := info.ObjectOf(id); o != nil && !loopVars[o] {
							assigned[o] = true
						}
					}
				}
			case *ast.IncDecStmt:
				if id, ok := x.X.(*ast.Ident); ok {
					if o := info.ObjectOf(id); o != nil {
						assigned[o] = true
					}
				}
			}
			return true
		})
		// per-iteration locals computed from the element alone (attr := obj.Attribute(nat.Name)) inspect the current
		// element just as the loop variables do
		for _, st := range rs.Body.List {
			as, ok := st.(*ast.AssignStmt)
			if !ok || as.Tok != token.DEFINE {
				continue
			}
			fromElem, fromState := false, false
			for _, r := range as.Rhs {
				ast.Inspect(r, func(m ast.Node) bool {
					if id, ok := m.(*ast.Ident); ok {
						if o := info.Uses[id]; o != nil {
							if loopVars[o] {
								fromElem = true
							} else if assigned[o] {
								fromState = true
							}
						}
					}
					return true
				})
			}
			if fromElem && !fromState {
				for _, l := range as.Lhs {
					if id, ok := l.(*ast.Ident); ok {
						if o := info.Defs[id]; o != nil {
							// only if it is not assigned again elsewhere in the loop
							n := 0
							ast.Inspect(rs.Body, func(m ast.Node) bool {
								if a2, ok := m.(*ast.AssignStmt); ok {
									for _, l2 := range a2.Lhs {
										if id2, ok := l2.(*ast.Ident); ok && info.ObjectOf(id2) == o {
											n++
										}
									}
								}
								return true
							})
							if n == 1 {
								loopVars[o] = true
								delete(assigned, o)
							}
						}
					}
				}
			}
		}
		for _, st := range rs.Body.List {
			is, ok := st.(*ast.IfStmt)
			if !ok || is.Else != nil || len(is.Body.List) != 1 {
				continue
			}
			initVars := map[types.Object]bool{}
			var initRHS []ast.Expr
			if is.Init != nil {
				as, ok := is.Init.(*ast.AssignStmt)
				if !ok || as.Tok != token.DEFINE {
					continue
				}
				for _, l := range as.Lhs {
					if id, ok := l.(*ast.Ident); ok {
						initVars[info.Defs[id]] = true
					}
				}
				initRHS = as.Rhs
			}
			br, ok := is.Body.List[0].(*ast.BranchStmt)
			if !ok || br.Tok != token.BREAK || br.Label != nil {
				continue
			}
			usesLoopVar, usesState := false, false
			scan := func(e ast.Node) {
				ast.Inspect(e, func(m ast.Node) bool {
					if id, ok := m.(*ast.Ident); ok {
						if o := info.Uses[id]; o != nil {
							if loopVars[o] {
								usesLoopVar = true
							}
							if assigned[o] && !initVars[o] {
								usesState = true
							}
						}
					}
					return true
				})
			}
			scan(is.Cond)
			for _, e := range initRHS {
				scan(e)
			}
			// a condition on the position alone (`if i >= 5 { break }` over a slice) is a cut-off, not a filter: once it
			// holds it holds for every later element, so break and continue do the same
			if usesLoopVar && !usesState {
				indexOnly := false
				if kid, ok := rs.Key.(*ast.Ident); ok {
					if _, isMap := info.TypeOf(rs.X).Underlying().(*types.Map); !isMap {
						ko := info.Defs[kid]
						indexOnly = ko != nil
						check := func(e ast.Node) {
							ast.Inspect(e, func(m ast.Node) bool {
								if id, ok := m.(*ast.Ident); ok {
									if o := info.Uses[id]; o != nil && loopVars[o] && o != ko {
										indexOnly = false
									}
								}
								return true
							})
						}
						check(is.Cond)
						for _, e := range initRHS {
							check(e)
						}
					}
				}
				if !indexOnly {
					out = append(out, BareBreak{is, rs})
				}
			}
		}
		return true
	})
	return out
}

// TagMismatch is a struct field whose json and yaml tags differ: the two
// renderings of the same document would differ in that field's name or
// omission rule.
type TagMismatch struct {
	Struct, Field, JSON, YAML string
	Pos                       token.Pos
}

// TagMismatches returns, for the package in dir, the number of fields tagged
// for both json and yaml and the fields whose two tags differ. Files limits the
// scan to the given files (absolute names) when non-nil.
func (c *Ctx) TagMismatches(dir string, files map[string]bool) (int, []TagMismatch) {
	p := c.Pkg(dir)
	if p == nil {
		return 0, nil
	}
	n := 0
	var out []TagMismatch
	for _, file := range p.Syntax {
		if files != nil && !files[c.Fset.Position(file.Pos()).Filename] {
			continue
		}
		ast.Inspect(file, func(m ast.Node) bool {
			ts, ok := m.(*ast.TypeSpec)
			if !ok {
				return true
			}
			st, ok := ts.Type.(*ast.StructType)
			if !ok {
				return true
			}
			for _, fl := range st.Fields.List {
				if fl.Tag == nil {
					continue
				}
				raw, err := strconv.Unquote(fl.Tag.Value)
				if err != nil {
					continue
				}
				tag := reflect.StructTag(raw)
				j, okj := tag.Lookup("json")
				y, oky := tag.Lookup("yaml")
				if !okj || !oky {
					continue
				}
				n++
				if j != y {
					name := ""
					if len(fl.Names) > 0 {
						name = fl.Names[0].Name
					}
					out = append(out, TagMismatch{ts.Name.Name, name, j, y, fl.Pos()})
				}
			}
			return true
		})
	}
	return n, out
}

// SwappedArg is a call that passes, at the position of parameter P, a value
// named after parameter Q while the value named after P is passed at Q's
// position.
type SwappedArg struct {
	Call   *ast.CallExpr
	Callee string
	A, B   string // the two argument names
}

func finalName(e ast.Expr) string {
	switch x := ast.Unparen(e).(type) {
	case *ast.Ident:
		return strings.ToLower(x.Name)
	case *ast.SelectorExpr:
		return strings.ToLower(x.Sel.Name)
	}
	return ""
}

// SwappedArgs lists the calls of f (to functions with named parameters) where
// two arguments carry each other's parameter names.
func SwappedArgs(f *Func) []SwappedArg {
	info := f.Pkg.TypesInfo
	var out []SwappedArg
	ast.Inspect(f.Decl.Body, func(n ast.Node) bool {
		call, ok := n.(*ast.CallExpr)
		if !ok {
			return true
		}
		fn := Callee(info, call)
		if fn == nil {
			return true
		}
		sig, ok := fn.Type().(*types.Signature)
		if !ok || sig.Variadic() && len(call.Args) > sig.Params().Len() {
			return true
		}
		if len(call.Args) != sig.Params().Len() {
			return true
		}
		names := make([]string, len(call.Args))
		for i, a := range call.Args {
			names[i] = finalName(a)
		}
		for i := 0; i < len(names); i++ {
			for j := i + 1; j < len(names); j++ {
				pi, pj := strings.ToLower(sig.Params().At(i).Name()), strings.ToLower(sig.Params().At(j).Name())
				if pi == "" || pj == "" || pi == pj || pi == "_" || pj == "_" {
					continue
				}
				if names[i] == pj && names[j] == pi && types.Identical(sig.Params().At(i).Type(), sig.Params().At(j).Type()) {
					out = append(out, SwappedArg{call, FullName(fn), names[i], names[j]})
				}
			}
		}
		return true
	})
	return out
}

// SelfCopy is a composite literal of struct type T initialised, field by
// field, from another value of type T (T{A: src.A, B: dup(src.B)}): a copy
// constructor. Missing lists the fields of T the copy neither sets in the
// literal nor assigns afterwards (through the variable the literal is bound to).
type SelfCopy struct {
	Lit     *ast.CompositeLit
	Type    string
	Mapped  int // fields initialised from the same-named field of the source
	Missing []string
}

var copyName = regexp.MustCompile(`(?i)^(dup|copy|clone)`)

func shortFuncName(f *Func) string { return f.Decl.Name.Name }

// typeInSignature reports whether f has a receiver or parameter of type T, *T,
// []T or []*T.
func typeInSignature(f *Func, named *types.Named) bool {
	sig := f.Obj.Type().(*types.Signature)
	is := func(t types.Type) bool {
		for i := 0; i < 3; i++ {
			switch x := t.(type) {
			case *types.Pointer:
				t = x.Elem()
			case *types.Slice:
				t = x.Elem()
			}
		}
		return types.Identical(t, named)
	}
	if r := sig.Recv(); r != nil && is(r.Type()) {
		return true
	}
	for i := 0; i < sig.Params().Len(); i++ {
		if is(sig.Params().At(i).Type()) {
			return true
		}
	}
	return false
}

// SelfCopies finds the copy constructors in f (at least two fields, and at
// least half of the keyed fields, initialised from the same-named field of one
// source value of the same type).
func SelfCopies(f *Func) []SelfCopy {
	info := f.Pkg.TypesInfo
	parent := ParentMap(f.Decl.Body)
	var out []SelfCopy
	ast.Inspect(f.Decl.Body, func(n ast.Node) bool {
		cl, ok := n.(*ast.CompositeLit)
		if !ok {
			return true
		}
		t := info.TypeOf(cl)
		named, ok := t.(*types.Named)
		if !ok {
			return true
		}
		st, ok := named.Underlying().(*types.Struct)
		if !ok || st.NumFields() < 2 {
			return true
		}
		set := map[string]bool{}
		mapped := 0
		keyed := 0
		var srcObj types.Object
		if !strings.HasPrefix(named.Obj().Pkg().Path(), Mod) {
			return true
		}
		for _, el := range cl.Elts {
			kv, ok := el.(*ast.KeyValueExpr)
			if !ok {
				return true // positional literal
			}
			key, ok := kv.Key.(*ast.Ident)
			if !ok {
				return true
			}
			keyed++
			set[key.Name] = true
			// does the value mention src.<same field> with src of type T / *T ?
			ast.Inspect(kv.Value, func(m ast.Node) bool {
				se, ok := m.(*ast.SelectorExpr)
				if !ok || se.Sel.Name != key.Name {
					return true
				}
				bt := info.TypeOf(se.X)
				if bt == nil {
					return true
				}
				if p, ok := bt.Underlying().(*types.Pointer); ok {
					bt = p.Elem()
				}
				if !types.Identical(bt, named) {
					return true
				}
				if id, ok := ast.Unparen(se.X).(*ast.Ident); ok {
					o := info.Uses[id]
					if srcObj == nil || srcObj == o {
						srcObj = o
						mapped++
						return false
					}
				}
				return true
			})
		}
		// only functions that say they copy (Dup*, copy*, clone*) and take the type they build: a literal
		// that picks some fields of a same-typed value elsewhere is a projection, not a copy
		_ = keyed
		if !(copyName.MatchString(shortFuncName(f)) && typeInSignature(f, named)) {
			return true
		}
		// the variable the literal is bound to
		var bound types.Object
		var cur ast.Node = cl
		if u, ok := parent[cur].(*ast.UnaryExpr); ok {
			cur = u
		}
		if as, ok := parent[cur].(*ast.AssignStmt); ok && len(as.Lhs) == len(as.Rhs) {
			for i, r := range as.Rhs {
				if r == cur {
					if id, ok := as.Lhs[i].(*ast.Ident); ok {
						bound = info.ObjectOf(id)
					}
				}
			}
		}
		if bound != nil {
			ast.Inspect(f.Decl.Body, func(m ast.Node) bool {
				as, ok := m.(*ast.AssignStmt)
				if !ok {
					return true
				}
				for _, l := range as.Lhs {
					if ix, ok := l.(*ast.IndexExpr); ok {
						l = ix.X // bound.F[k] = v fills F
					}
					if se, ok := l.(*ast.SelectorExpr); ok {
						if id, ok := ast.Unparen(se.X).(*ast.Ident); ok && info.Uses[id] == bound {
							set[se.Sel.Name] = true
						}
					}
				}
				return true
			})
		}
		sc := SelfCopy{Lit: cl, Type: named.Obj().Name(), Mapped: mapped}
		for i := 0; i < st.NumFields(); i++ {
			fl := st.Field(i)
			if !set[fl.Name()] {
				sc.Missing = append(sc.Missing, fl.Name())
			}
		}
		out = append(out, sc)
		return true
	})
	return out
}

// GuardFieldMismatch: `if A.F <cmp> zero { A.G = B.G }` with F != G, where A
// and B have the same struct type - the merge idiom (take the other value's
// field when ours is unset) guarded by a different field than the one assigned.
type GuardFieldMismatch struct {
	If           *ast.IfStmt
	Guard, Field string
}

// GuardFieldMismatches lists the mismatching merge guards of f and returns the
// number of merge-idiom instances seen.
func GuardFieldMismatches(f *Func) (int, []GuardFieldMismatch) {
	info := f.Pkg.TypesInfo
	n := 0
	var out []GuardFieldMismatch
	fieldOf := func(e ast.Expr) (types.Object, string) {
		se, ok := ast.Unparen(e).(*ast.SelectorExpr)
		if !ok {
			return nil, ""
		}
		id, ok := ast.Unparen(se.X).(*ast.Ident)
		if !ok {
			return nil, ""
		}
		if v, ok := info.Uses[se.Sel].(*types.Var); !ok || !v.IsField() {
			return nil, ""
		}
		return info.Uses[id], se.Sel.Name
	}
	ast.Inspect(f.Decl.Body, func(nd ast.Node) bool {
		is, ok := nd.(*ast.IfStmt)
		if !ok || is.Init != nil || is.Else != nil || len(is.Body.List) != 1 {
			return true
		}
		as, ok := is.Body.List[0].(*ast.AssignStmt)
		if !ok || len(as.Lhs) != 1 || len(as.Rhs) != 1 || as.Tok != token.ASSIGN {
			return true
		}
		aObj, g := fieldOf(as.Lhs[0])
		bObj, g2 := fieldOf(as.Rhs[0])
		if aObj == nil || bObj == nil || aObj == bObj || g != g2 || !types.Identical(aObj.Type(), bObj.Type()) {
			return true
		}
		// condition: exactly one field selection, on A, compared with a constant/nil
		cmp, ok := ast.Unparen(is.Cond).(*ast.BinaryExpr)
		if !ok || (cmp.Op != token.EQL && cmp.Op != token.NEQ) {
			return true
		}
		cObj, fld := fieldOf(cmp.X)
		if cObj != aObj {
			return true
		}
		if tv, ok := info.Types[cmp.Y]; !ok || (tv.Value == nil && !tv.IsNil()) {
			return true
		}
		n++
		if fld != g {
			out = append(out, GuardFieldMismatch{is, fld, g})
		}
		return true
	})
	return n, out
}

// RetryOnce: `if p(n) { i++; n = …i… }` - the body recomputes the argument of
// its own condition from a counter it increments, which only makes sense as a
// loop (retry until the predicate fails).
func RetryOnces(f *Func) []*ast.IfStmt {
	info := f.Pkg.TypesInfo
	var out []*ast.IfStmt
	ast.Inspect(f.Decl.Body, func(nd ast.Node) bool {
		is, ok := nd.(*ast.IfStmt)
		if !ok || is.Else != nil || is.Init != nil {
			return true
		}
		call, ok := ast.Unparen(is.Cond).(*ast.CallExpr)
		if !ok || len(call.Args) == 0 {
			return true
		}
		var counter, arg types.Object
		for _, st := range is.Body.List {
			switch x := st.(type) {
			case *ast.IncDecStmt:
				if id, ok := x.X.(*ast.Ident); ok && x.Tok == token.INC {
					counter = info.ObjectOf(id)
				}
			case *ast.AssignStmt:
				if len(x.Lhs) == 1 && x.Tok == token.ASSIGN {
					if id, ok := x.Lhs[0].(*ast.Ident); ok && counter != nil {
						usesCounter := false
						ast.Inspect(x.Rhs[0], func(m ast.Node) bool {
							if id2, ok := m.(*ast.Ident); ok && info.Uses[id2] == counter {
								usesCounter = true
							}
							return true
						})
						if usesCounter {
							arg = info.ObjectOf(id)
						}
					}
				}
			}
		}
		if counter == nil || arg == nil {
			return true
		}
		for _, a := range call.Args {
			if id, ok := ast.Unparen(a).(*ast.Ident); ok && info.Uses[id] == arg {
				out = append(out, is)
			}
		}
		return true
	})
	return out
}

// GuardVarMismatch: a statement defines W; the very next statement is
// `if len(V) > 0 | V != nil | V != "" { … }` whose body uses W but never V,
// with V another variable of W's type: the guard tests the wrong variable.
type GuardVarMismatch struct {
	If         *ast.IfStmt
	Tested, By string
}

func GuardVarMismatches(f *Func) []GuardVarMismatch {
	info := f.Pkg.TypesInfo
	var out []GuardVarMismatch
	mentions := func(n ast.Node, o types.Object) bool {
		found := false
		ast.Inspect(n, func(m ast.Node) bool {
			if id, ok := m.(*ast.Ident); ok && info.Uses[id] == o {
				found = true
			}
			return !found
		})
		return found
	}
	ast.Inspect(f.Decl.Body, func(nd ast.Node) bool {
		blk, ok := nd.(*ast.BlockStmt)
		if !ok {
			return true
		}
		for i := 1; i < len(blk.List); i++ {
			is, ok := blk.List[i].(*ast.IfStmt)
			if !ok || is.Init != nil || is.Else != nil {
				continue
			}
			def, ok := blk.List[i-1].(*ast.AssignStmt)
			if !ok || def.Tok != token.DEFINE || len(def.Lhs) == 0 || len(def.Rhs) != 1 {
				continue
			}
			if _, isCall := ast.Unparen(def.Rhs[0]).(*ast.CallExpr); !isCall {
				continue // a constant or copied initial value, not a freshly computed result
			}
			wid, ok := def.Lhs[0].(*ast.Ident)
			if !ok || wid.Name == "_" {
				continue
			}
			w := info.Defs[wid]
			if w == nil {
				continue
			}
			// condition variable
			var vExpr ast.Expr
			if cmp, ok := ast.Unparen(is.Cond).(*ast.BinaryExpr); ok && (cmp.Op == token.GTR || cmp.Op == token.NEQ) {
				vExpr = cmp.X
				if c2, ok := cmp.X.(*ast.CallExpr); ok && len(c2.Args) == 1 {
					if id, ok := c2.Fun.(*ast.Ident); ok && id.Name == "len" {
						vExpr = c2.Args[0]
					}
				}
			}
			vid, ok := vExpr.(*ast.Ident)
			if !ok {
				continue
			}
			v := info.Uses[vid]
			if v == nil || v == w || !types.Identical(v.Type(), w.Type()) {
				continue
			}
			if _, isVar := v.(*types.Var); !isVar {
				continue
			}
			if mentions(is.Body, w) && !mentions(is.Body, v) {
				out = append(out, GuardVarMismatch{is, vid.Name, wid.Name})
			}
		}
		return true
	})
	return out
}

// RawAfterNormalised: a block derives n := strings.Split(E, sep)[0] (the part
// of a "name:mapped" pair before the separator) and later passes the raw E
// where, in the same block, n is passed to the same callee: a lookup by the raw
// pair in place of the name.
type RawAfterNormalised struct {
	Call     *ast.CallExpr
	Raw, Use string
}

func RawAfterNormaliseds(f *Func) []RawAfterNormalised {
	info := f.Pkg.TypesInfo
	var out []RawAfterNormalised
	ast.Inspect(f.Decl.Body, func(nd ast.Node) bool {
		blk, ok := nd.(*ast.BlockStmt)
		if !ok {
			return true
		}
		for i, st := range blk.List {
			as, ok := st.(*ast.AssignStmt)
			if !ok || as.Tok != token.DEFINE || len(as.Lhs) != 1 || len(as.Rhs) != 1 {
				continue
			}
			ix, ok := ast.Unparen(as.Rhs[0]).(*ast.IndexExpr)
			if !ok {
				continue
			}
			call, ok := ix.X.(*ast.CallExpr)
			if !ok || CalleeName(info, call) != "strings.Split" || len(call.Args) != 2 {
				continue
			}
			if v, isConst := info.Types[ix.Index]; !isConst || v.Value == nil || v.Value.ExactString() != "0" {
				continue
			}
			raw := call.Args[0]
			nObj := info.Defs[as.Lhs[0].(*ast.Ident)]
			if nObj == nil {
				continue
			}
			// callees that receive n later in the block
			takesN := map[string]bool{}
			for _, later := range blk.List[i+1:] {
				ast.Inspect(later, func(m ast.Node) bool {
					c2, ok := m.(*ast.CallExpr)
					if !ok {
						return true
					}
					for _, a := range c2.Args {
						if id, ok := ast.Unparen(a).(*ast.Ident); ok && info.Uses[id] == nObj {
							takesN[CalleeName(info, c2)] = true
						}
					}
					return true
				})
			}
			for _, later := range blk.List[i+1:] {
				ast.Inspect(later, func(m ast.Node) bool {
					c2, ok := m.(*ast.CallExpr)
					if !ok {
						return true
					}
					name := CalleeName(info, c2)
					for _, a := range c2.Args {
						if SameExpr(info, a, raw) && name != "" && (takesN[name] || attrNameParams[strings.ReplaceAll(name, Mod+"/", "")] != nil) {
							out = append(out, RawAfterNormalised{c2, Src(f.Pkg.Fset, raw), name})
						}
					}
					return true
				})
			}
		}
		return true
	})
	return out
}

// InvariantCall: an expression statement calling a module function (result
// discarded, so called for its effect on an argument) directly in a loop body,
// none of whose arguments mentions a variable of the iteration (the loop
// variables or anything assigned in the loop): every iteration repeats the same
// effect on the same loop-invariant target, while the value built by the
// iteration is left untouched.
func InvariantCalls(f *Func) []*ast.CallExpr {
	info := f.Pkg.TypesInfo
	var out []*ast.CallExpr
	ast.Inspect(f.Decl.Body, func(nd ast.Node) bool {
		var body *ast.BlockStmt
		iter := map[types.Object]bool{}
		switch x := nd.(type) {
		case *ast.RangeStmt:
			body = x.Body
			for _, e := range []ast.Expr{x.Key, x.Value} {
				if id, ok := e.(*ast.Ident); ok {
					if o := info.ObjectOf(id); o != nil {
						iter[o] = true
					}
				}
			}
		case *ast.ForStmt:
			body = x.Body
			if as, ok := x.Init.(*ast.AssignStmt); ok {
				for _, l := range as.Lhs {
					if id, ok := l.(*ast.Ident); ok {
						if o := info.ObjectOf(id); o != nil {
							iter[o] = true
						}
					}
				}
			}
		default:
			return true
		}
		ast.Inspect(body, func(m ast.Node) bool {
			switch y := m.(type) {
			case *ast.AssignStmt:
				for _, l := range y.Lhs {
					if id := RootIdent(l); id != nil {
						if o := info.ObjectOf(id); o != nil {
							iter[o] = true
						}
					}
				}
			case *ast.RangeStmt:
				for _, e := range []ast.Expr{y.Key, y.Value} {
					if id, ok := e.(*ast.Ident); ok {
						if o := info.ObjectOf(id); o != nil {
							iter[o] = true
						}
					}
				}
			case *ast.ValueSpec:
				for _, id := range y.Names {
					if o := info.Defs[id]; o != nil {
						iter[o] = true
					}
				}
			}
			return true
		})
		for _, st := range body.List {
			es, ok := st.(*ast.ExprStmt)
			if !ok {
				continue
			}
			call, ok := es.X.(*ast.CallExpr)
			if !ok || len(call.Args) == 0 {
				continue
			}
			fn := Callee(info, call)
			if fn == nil || fn.Pkg() == nil || !strings.HasPrefix(fn.Pkg().Path(), Mod) {
				continue
			}
			sig, isSig := fn.Type().Underlying().(*types.Signature)
			if !isSig {
				continue
			}
			if _, isFunc := fn.(*types.Func); !isFunc {
				continue // a function-typed variable or parameter (walker(set)): the callee is not known here
			}
			if sig.Recv() != nil {
				continue // methods on accumulators (verr.Add, buf.Write) are the loop's output channel
			}
			uses := false
			for _, a := range call.Args {
				ast.Inspect(a, func(m ast.Node) bool {
					if id, ok := m.(*ast.Ident); ok && iter[info.Uses[id]] {
						uses = true
					}
					return !uses
				})
			}
			// at least one argument must be a pointer-like local the call can mutate
			if !uses {
				out = append(out, call)
			}
		}
		return true
	})
	return out
}

// UnguardedMapStore: a function fills map m in two places; one place looks the
// key up first and creates the entry only when it is absent
// (`v, ok := m[k]; if !ok { m[k] = … }`), the other stores unconditionally. If
// entries must be created only once in one place they must in the other: the
// unconditional store replaces an entry the first place may have filled.
type UnguardedMapStore struct {
	Store *ast.AssignStmt
	Map   string
}

func UnguardedMapStores(f *Func) []UnguardedMapStore {
	info := f.Pkg.TypesInfo
	parent := ParentMap(f.Decl.Body)
	type st struct {
		as      *ast.AssignStmt
		guarded bool
		excused bool
	}
	stores := map[types.Object][]st{}
	ast.Inspect(f.Decl.Body, func(nd ast.Node) bool {
		as, ok := nd.(*ast.AssignStmt)
		if !ok || as.Tok != token.ASSIGN || len(as.Lhs) != 1 {
			return true
		}
		ix, ok := as.Lhs[0].(*ast.IndexExpr)
		if !ok {
			return true
		}
		mid, ok := ast.Unparen(ix.X).(*ast.Ident)
		if !ok {
			return true
		}
		mo := info.Uses[mid]
		if mo == nil {
			return true
		}
		if _, isMap := mo.Type().Underlying().(*types.Map); !isMap {
			return true
		}
		// guarded: an enclosing if tests !ok / v == nil where ok/v come from m[k] with the same key,
		// or the same key was looked up by an earlier statement of an enclosing block (guard-clause
		// form: `v, ok := m[k]; if !ok { m[k] = x; continue }; …; m[k] = v`): such a store is excused,
		// but only the strict if-form below makes the function one that "creates entries once"
		excused := false
		for p := parent[ast.Node(as)]; p != nil && !excused; p = parent[p] {
			blk, ok := p.(*ast.BlockStmt)
			if !ok {
				continue
			}
			for _, st := range blk.List {
				if st.End() > as.Pos() {
					break
				}
				ast.Inspect(st, func(m ast.Node) bool {
					if lix, ok := m.(*ast.IndexExpr); ok && m != ast.Node(ix) {
						if lid, ok := ast.Unparen(lix.X).(*ast.Ident); ok && info.Uses[lid] == mo && SameExpr(info, lix.Index, ix.Index) {
							excused = true
						}
					}
					return !excused
				})
			}
			if _, isLoop := parent[blk].(*ast.RangeStmt); isLoop {
				break // lookups of earlier iterations do not count
			}
			if _, isLoop := parent[blk].(*ast.ForStmt); isLoop {
				break
			}
		}
		guarded := false
		for p := parent[as]; p != nil && !guarded; p = parent[p] {
			is, ok := p.(*ast.IfStmt)
			if !ok {
				continue
			}
			// lookups: in the if's init, or in the statement preceding the if
			var cands []ast.Stmt
			if is.Init != nil {
				cands = append(cands, is.Init)
			}
			if blk, ok := parent[is].(*ast.BlockStmt); ok {
				for i, s := range blk.List {
					if s == ast.Stmt(is) && i > 0 {
						cands = append(cands, blk.List[i-1])
					}
				}
			}
			for _, cst := range cands {
				las, ok := cst.(*ast.AssignStmt)
				if !ok || len(las.Rhs) != 1 {
					continue
				}
				lix, ok := ast.Unparen(las.Rhs[0]).(*ast.IndexExpr)
				if !ok {
					continue
				}
				lid, ok := ast.Unparen(lix.X).(*ast.Ident)
				if !ok || info.Uses[lid] != mo || !SameExpr(info, lix.Index, ix.Index) {
					continue
				}
				// the store sits in the branch of the if (then-branch of a negative test is the usual form)
				if as.Pos() >= is.Body.Pos() && as.End() <= is.End() {
					guarded = true // in either branch of the test: creation when absent, or update of what was read
				}
			}
		}
		stores[mo] = append(stores[mo], st{as, guarded, excused})
		return true
	})
	var out []UnguardedMapStore
	for mo, ss := range stores {
		anyGuarded := false
		for _, s := range ss {
			if s.guarded {
				anyGuarded = true
			}
		}
		if !anyGuarded {
			continue
		}
		for _, s := range ss {
			if !s.guarded && !s.excused {
				out = append(out, UnguardedMapStore{s.as, mo.Name()})
			}
		}
	}
	sort.Slice(out, func(i, j int) bool { return out[i].Store.Pos() < out[j].Store.Pos() })
	return out
}

// DupBranch: two arms of one switch (or of an if/else-if chain) have identical,
// non-trivial bodies while their conditions differ: one of them was pasted and
// not adapted (`case "query": hsch = append(hsch, s)` next to `case "header":
// hsch = append(hsch, s)`).
type DupBranch struct {
	First, Second ast.Node
	Body          string
}

func DupBranches(f *Func) []DupBranch {
	var out []DupBranch
	text := func(list []ast.Stmt) string {
		var b strings.Builder
		for _, s := range list {
			b.WriteString(Src(f.Pkg.Fset, s))
			b.WriteString(";")
		}
		return b.String()
	}
	nontrivial := func(list []ast.Stmt) bool {
		if len(list) == 0 {
			return false
		}
		for _, s := range list {
			switch x := s.(type) {
			case *ast.ReturnStmt:
				if len(x.Results) == 0 {
					continue
				}
				allConst := true
				for _, r := range x.Results {
					if tv, ok := f.Pkg.TypesInfo.Types[r]; !ok || (tv.Value == nil && !tv.IsNil()) {
						allConst = false
					}
				}
				if allConst {
					continue
				}
				return true
			case *ast.BranchStmt:
				continue
			default:
				return true
			}
		}
		return false
	}
	ast.Inspect(f.Decl.Body, func(nd ast.Node) bool {
		var clauses []*ast.CaseClause
		switch x := nd.(type) {
		case *ast.SwitchStmt:
			if x.Tag == nil {
				return true // arms of a tagless switch are ordered conditions; equal bodies are a way to write "or"
			}
			for _, s := range x.Body.List {
				if cc, ok := s.(*ast.CaseClause); ok && cc.List != nil {
					clauses = append(clauses, cc)
				}
			}
		case *ast.TypeSwitchStmt:
			return true // identical bodies under different types are different code
		default:
			return true
		}
		for i := 0; i < len(clauses); i++ {
			for j := i + 1; j < len(clauses); j++ {
				if !nontrivial(clauses[i].Body) {
					continue
				}
				if a, b := text(clauses[i].Body), text(clauses[j].Body); a == b && len(a) > 12 {
					out = append(out, DupBranch{clauses[i], clauses[j], a})
				}
			}
		}
		return true
	})
	return out
}

// SelfSearch: a nested loop searches a collection for an element of the very
// same collection (`for _, a := range X { for _, b := range X { if a == b …`):
// every element finds itself, so a "not found" branch is dead and the check the
// loops were written for cannot fail.
type SelfSearch struct {
	Outer, Inner *ast.RangeStmt
}

func SelfSearches(f *Func) []SelfSearch {
	info := f.Pkg.TypesInfo
	var out []SelfSearch
	ast.Inspect(f.Decl.Body, func(nd ast.Node) bool {
		outer, ok := nd.(*ast.RangeStmt)
		if !ok || outer.Value == nil {
			return true
		}
		ov := info.ObjectOf(identOf(outer.Value))
		ast.Inspect(outer.Body, func(m ast.Node) bool {
			inner, ok := m.(*ast.RangeStmt)
			if !ok || inner.Value == nil || !SameExpr(info, inner.X, outer.X) {
				return true
			}
			iv := info.ObjectOf(identOf(inner.Value))
			if ov == nil || iv == nil {
				return true
			}
			if k, ok := inner.Key.(*ast.Ident); ok && k.Name != "_" {
				if k2, ok := outer.Key.(*ast.Ident); ok && k2.Name != "_" {
					return true // both positions are available: the body can (and does, in the duplicate checks) exclude the element itself
				}
			}
			// the inner body compares the two elements for equality and sets a flag / breaks
			found := false
			ast.Inspect(inner.Body, func(k ast.Node) bool {
				cmp, ok := k.(*ast.BinaryExpr)
				if !ok || cmp.Op != token.EQL {
					return true
				}
				l, r := RootIdent(cmp.X), RootIdent(cmp.Y)
				if l == nil || r == nil {
					return true
				}
				lo, ro := info.Uses[l], info.Uses[r]
				if (lo == ov && ro == iv) || (lo == iv && ro == ov) {
					found = true
				}
				return true
			})
			if found {
				out = append(out, SelfSearch{outer, inner})
			}
			return true
		})
		return true
	})
	return out
}

func identOf(e ast.Expr) *ast.Ident {
	id, _ := ast.Unparen(e).(*ast.Ident)
	if id == nil {
		return &ast.Ident{Name: "_"}
	}
	return id
}

// TwinGuard: two consecutive if statements with the same condition
// `len(A) > 0` (or A != nil); the first body uses A, the second never mentions A
// but uses B, another variable of A's type: the second guard was pasted from the
// first and still tests the first variable.
type TwinGuard struct {
	If         *ast.IfStmt
	Tested, By string
}

func TwinGuards(f *Func) []TwinGuard {
	info := f.Pkg.TypesInfo
	var out []TwinGuard
	mentions := func(n ast.Node, o types.Object) bool {
		found := false
		ast.Inspect(n, func(m ast.Node) bool {
			if id, ok := m.(*ast.Ident); ok && info.Uses[id] == o {
				found = true
			}
			return !found
		})
		return found
	}
	guardVar := func(is *ast.IfStmt) types.Object {
		cmp, ok := ast.Unparen(is.Cond).(*ast.BinaryExpr)
		if !ok || (cmp.Op != token.GTR && cmp.Op != token.NEQ) {
			return nil
		}
		e := cmp.X
		if c2, ok := e.(*ast.CallExpr); ok && len(c2.Args) == 1 {
			if id, ok := c2.Fun.(*ast.Ident); ok && id.Name == "len" {
				e = c2.Args[0]
			}
		}
		if id, ok := ast.Unparen(e).(*ast.Ident); ok {
			return info.Uses[id]
		}
		return nil
	}
	ast.Inspect(f.Decl.Body, func(nd ast.Node) bool {
		blk, ok := nd.(*ast.BlockStmt)
		if !ok {
			return true
		}
		for i := 1; i < len(blk.List); i++ {
			a, ok1 := blk.List[i-1].(*ast.IfStmt)
			b, ok2 := blk.List[i].(*ast.IfStmt)
			if !ok1 || !ok2 || a.Init != nil || b.Init != nil || a.Else != nil || b.Else != nil {
				continue
			}
			if Src(f.Pkg.Fset, a.Cond) != Src(f.Pkg.Fset, b.Cond) {
				continue
			}
			v := guardVar(b)
			if v == nil || !mentions(a.Body, v) || mentions(b.Body, v) {
				continue
			}
			// a same-typed other variable used by the second body
			var other types.Object
			ast.Inspect(b.Body, func(m ast.Node) bool {
				if id, ok := m.(*ast.Ident); ok {
					if o, ok := info.Uses[id].(*types.Var); ok && o != v && !o.IsField() && types.Identical(o.Type(), v.Type()) {
						other = o
					}
				}
				return other == nil
			})
			if other != nil {
				out = append(out, TwinGuard{b, v.Name(), other.Name()})
			}
		}
		return true
	})
	return out
}

// HalfMapWalk: a self-recursive walker over data types has an arm for maps
// (case *expr.Map) in which it recurses into the element type but not into the
// key type, or the reverse: half of every map is never visited.
type HalfMapWalk struct {
	Clause  *ast.CaseClause
	Visited string
}

// HalfMapWalks returns the number of map arms of self-recursive walkers in f and
// the arms that recurse into only one of KeyType/ElemType.
func HalfMapWalks(f *Func) (int, []HalfMapWalk) {
	info := f.Pkg.TypesInfo
	n := 0
	var out []HalfMapWalk
	ast.Inspect(f.Decl.Body, func(nd ast.Node) bool {
		ts, ok := nd.(*ast.TypeSwitchStmt)
		if !ok {
			return true
		}
		for _, st := range ts.Body.List {
			cc := st.(*ast.CaseClause)
			isMap := false
			for _, e := range cc.List {
				if t := info.TypeOf(e); t != nil && strings.HasSuffix(t.String(), "/expr.Map") {
					isMap = true
				}
			}
			if !isMap {
				continue
			}
			visited := map[string]int{}
			for _, s := range cc.Body {
				ast.Inspect(s, func(m ast.Node) bool {
					call, ok := m.(*ast.CallExpr)
					if !ok || Callee(info, call) != f.Obj {
						return true
					}
					for _, a := range call.Args {
						ast.Inspect(a, func(k ast.Node) bool {
							if se, ok := k.(*ast.SelectorExpr); ok && (se.Sel.Name == "KeyType" || se.Sel.Name == "ElemType") {
								visited[se.Sel.Name]++
							}
							return true
						})
					}
					return true
				})
			}
			if len(visited) == 0 {
				continue
			}
			n++
			if len(visited) == 1 {
				for k := range visited {
					out = append(out, HalfMapWalk{cc, k})
				}
			}
		}
		return true
	})
	return n, out
}

// LazyInitExtra: `if X == nil { X = &T{} ; X.M(…) }` - the block that creates a
// missing value also applies an operation to it. The operation then only happens
// when the value was missing; when it already existed it is skipped. In merge
// code (take over the parent's required fields, validations …) that silently
// drops the inherited data exactly when the target has data of its own.
type LazyInitExtra struct {
	If   *ast.IfStmt
	Call *ast.CallExpr
}

func LazyInitExtras(f *Func) []LazyInitExtra {
	info := f.Pkg.TypesInfo
	var out []LazyInitExtra
	ast.Inspect(f.Decl.Body, func(nd ast.Node) bool {
		is, ok := nd.(*ast.IfStmt)
		if !ok || is.Else != nil || is.Init != nil || len(is.Body.List) < 2 {
			return true
		}
		cmp, ok := ast.Unparen(is.Cond).(*ast.BinaryExpr)
		if !ok || cmp.Op != token.EQL || !IsNilIdent(info, cmp.Y) {
			return true
		}
		first, ok := is.Body.List[0].(*ast.AssignStmt)
		if !ok || len(first.Lhs) != 1 || !SameExpr(info, first.Lhs[0], cmp.X) {
			return true
		}
		// the right-hand side creates a fresh empty value
		fresh := false
		switch r := ast.Unparen(first.Rhs[0]).(type) {
		case *ast.UnaryExpr:
			if cl, ok := r.X.(*ast.CompositeLit); ok && len(cl.Elts) == 0 {
				fresh = true
			}
		case *ast.CompositeLit:
			fresh = len(r.Elts) == 0
		}
		if !fresh {
			return true
		}
		for _, st := range is.Body.List[1:] {
			// a field of the fresh value filled from a parameter of the function: the caller's value is only
			// recorded when nothing had been recorded before
			if as, ok := st.(*ast.AssignStmt); ok && len(as.Lhs) == 1 && len(as.Rhs) == 1 && as.Tok == token.ASSIGN {
				if se, ok := ast.Unparen(as.Lhs[0]).(*ast.SelectorExpr); ok && SameExpr(info, se.X, cmp.X) {
					fromParam := false
					ast.Inspect(as.Rhs[0], func(m ast.Node) bool {
						if id, ok := m.(*ast.Ident); ok {
							if v, ok := info.Uses[id].(*types.Var); ok && isParamOf(f, v) {
								fromParam = true
							}
						}
						return true
					})
					if fromParam {
						out = append(out, LazyInitExtra{is, &ast.CallExpr{Fun: as.Lhs[0], Args: []ast.Expr{as.Rhs[0]}, Lparen: as.Pos(), Rparen: as.End()}})
					}
				}
			}
			es, ok := st.(*ast.ExprStmt)
			if !ok {
				continue
			}
			call, ok := es.X.(*ast.CallExpr)
			if !ok {
				continue
			}
			if se, ok := call.Fun.(*ast.SelectorExpr); ok && SameExpr(info, se.X, cmp.X) && len(call.Args) > 0 {
				out = append(out, LazyInitExtra{is, call})
			}
		}
		return true
	})
	return out
}

// ShallowCopy: a copy constructor (function named Dup*/copy*/clone*) hands a
// field holding pointers to values of type T (a *T or a []*T) from the source
// to the copy as is - by plain assignment or with the builtin copy - although
// the package has a dedicated duplicator for T (func DupT or method T.Dup): the
// "copy" shares those values with the original, and whoever customises the copy
// (the transports each set the credential location on their copy of a scheme)
// changes the original and every other copy.
type ShallowCopy struct {
	Pos   token.Pos
	Field string
	Elem  string
}

func ShallowCopies(f *Func) []ShallowCopy {
	if !copyName.MatchString(shortFuncName(f)) {
		return nil
	}
	info := f.Pkg.TypesInfo
	hasDup := func(t types.Type) (string, bool) {
		for i := 0; i < 2; i++ {
			switch x := t.(type) {
			case *types.Slice:
				t = x.Elem()
			}
		}
		p, ok := t.(*types.Pointer)
		if !ok {
			return "", false
		}
		n, ok := p.Elem().(*types.Named)
		if !ok || n.Obj().Pkg() == nil || !strings.HasPrefix(n.Obj().Pkg().Path(), Mod) {
			return "", false
		}
		if _, isStruct := n.Underlying().(*types.Struct); !isStruct {
			return "", false
		}
		name := n.Obj().Name()
		short := strings.TrimSuffix(name, "Expr")
		scope := n.Obj().Pkg().Scope()
		for _, cand := range []string{"Dup" + name, "Dup" + short} {
			if _, ok := scope.Lookup(cand).(*types.Func); ok {
				return name, true
			}
		}
		for i := 0; i < n.NumMethods(); i++ {
			if n.Method(i).Name() == "Dup" {
				return name, true
			}
		}
		return "", false
	}
	srcField := func(e ast.Expr) (string, types.Type, bool) {
		se, ok := ast.Unparen(e).(*ast.SelectorExpr)
		if !ok {
			return "", nil, false
		}
		v, ok := info.Uses[se.Sel].(*types.Var)
		if !ok || !v.IsField() {
			return "", nil, false
		}
		return se.Sel.Name, v.Type(), true
	}
	var out []ShallowCopy
	ast.Inspect(f.Decl.Body, func(nd ast.Node) bool {
		switch x := nd.(type) {
		case *ast.KeyValueExpr:
			key, ok := x.Key.(*ast.Ident)
			if !ok {
				return true
			}
			if name, t, ok := srcField(x.Value); ok && name == key.Name {
				if elem, ok := hasDup(t); ok {
					out = append(out, ShallowCopy{x.Pos(), name, elem})
				}
			}
		case *ast.CallExpr:
			if id, ok := x.Fun.(*ast.Ident); ok && id.Name == "copy" && len(x.Args) == 2 {
				if _, isBuiltin := info.Uses[id].(*types.Builtin); isBuiltin {
					if name, t, ok := srcField(x.Args[1]); ok {
						if elem, ok := hasDup(t); ok {
							out = append(out, ShallowCopy{x.Pos(), name, elem})
						}
					}
				}
			}
		}
		return true
	})
	return out
}

// LateGuardMark: a self-recursive function protects itself against cycles with
// a visited set it passes down; the element must be recorded BEFORE descending.
// Here the store into the set follows, in the same block, a statement that
// contains the recursive call: a cycle through the element re-enters the
// function before the element is marked and recurses without bound.
type LateGuardMark struct {
	Store *ast.AssignStmt
	Map   string
}

func LateGuardMarks(f *Func) []LateGuardMark {
	info := f.Pkg.TypesInfo
	var out []LateGuardMark
	hasRecursion := func(n ast.Node, guard types.Object) bool {
		found := false
		ast.Inspect(n, func(m ast.Node) bool {
			call, ok := m.(*ast.CallExpr)
			if !ok || Callee(info, call) != f.Obj {
				return true
			}
			for _, a := range call.Args {
				if id, ok := ast.Unparen(a).(*ast.Ident); ok && info.Uses[id] == guard {
					found = true
				}
			}
			return !found
		})
		return found
	}
	ast.Inspect(f.Decl.Body, func(nd ast.Node) bool {
		blk, ok := nd.(*ast.BlockStmt)
		if !ok {
			return true
		}
		for i, st := range blk.List {
			as, ok := st.(*ast.AssignStmt)
			if !ok || len(as.Lhs) != 1 {
				continue
			}
			ix, ok := as.Lhs[0].(*ast.IndexExpr)
			if !ok {
				continue
			}
			id, ok := ast.Unparen(ix.X).(*ast.Ident)
			if !ok {
				continue
			}
			guard := info.Uses[id]
			if guard == nil {
				continue
			}
			if _, isMap := guard.Type().Underlying().(*types.Map); !isMap {
				continue
			}
			// is the map a parameter of f ?
			isParam := false
			sig := f.Obj.Type().(*types.Signature)
			for k := 0; k < sig.Params().Len(); k++ {
				if sig.Params().At(k) == guard {
					isParam = true
				}
			}
			if !isParam {
				continue
			}
			for _, before := range blk.List[:i] {
				if hasRecursion(before, guard) {
					out = append(out, LateGuardMark{as, id.Name})
					break
				}
			}
		}
		return true
	})
	return out
}

// ParallelAppend: two slices are filled in lock step (both appended to in one
// block: names[i] goes with values[i]); elsewhere one of them is appended to in
// a block that does not append to the other. The slices drift apart and the
// consumer pairs the wrong elements.
type ParallelAppend struct {
	Stmt      *ast.AssignStmt
	Slice     string
	Companion string
}

func ParallelAppends(f *Func) []ParallelAppend {
	info := f.Pkg.TypesInfo
	type app struct {
		as  *ast.AssignStmt
		obj types.Object
		blk *ast.BlockStmt
	}
	var apps []app
	ast.Inspect(f.Decl.Body, func(nd ast.Node) bool {
		blk, ok := nd.(*ast.BlockStmt)
		if !ok {
			return true
		}
		for _, st := range blk.List {
			as, ok := st.(*ast.AssignStmt)
			if !ok || len(as.Lhs) != 1 || len(as.Rhs) != 1 {
				continue
			}
			call, ok := as.Rhs[0].(*ast.CallExpr)
			if !ok || len(call.Args) < 2 {
				continue
			}
			if id, ok := call.Fun.(*ast.Ident); !ok || id.Name != "append" {
				continue
			}
			l, ok1 := as.Lhs[0].(*ast.Ident)
			a0, ok2 := ast.Unparen(call.Args[0]).(*ast.Ident)
			if !ok1 || !ok2 || info.ObjectOf(l) == nil || info.ObjectOf(l) != info.ObjectOf(a0) {
				continue
			}
			apps = append(apps, app{as, info.ObjectOf(l), blk})
		}
		return true
	})
	// companions: appended in the same block
	comp := map[types.Object]map[types.Object]int{}
	for i := range apps {
		for j := range apps {
			if i != j && apps[i].blk == apps[j].blk && apps[i].obj != apps[j].obj {
				if comp[apps[i].obj] == nil {
					comp[apps[i].obj] = map[types.Object]int{}
				}
				comp[apps[i].obj][apps[j].obj]++
			}
		}
	}
	var out []ParallelAppend
	// separate[a][c]: appends to a in a block that does not append to c
	separate := map[types.Object]map[types.Object]int{}
	for _, a := range apps {
		for c := range comp[a.obj] {
			has := false
			for _, b := range apps {
				if b.blk == a.blk && b.obj == c {
					has = true
				}
			}
			if !has {
				if separate[a.obj] == nil {
					separate[a.obj] = map[types.Object]int{}
				}
				separate[a.obj][c]++
			}
		}
	}
	for _, a := range apps {
		for c, n := range comp[a.obj] {
			// lock step is the rule (at least as many joint appends as separate ones, for both lists)
			if n < 1 || separate[a.obj][c] > n || separate[c][a.obj] > n {
				continue
			}
			// a's block must also append to c
			has := false
			for _, b := range apps {
				if b.blk == a.blk && b.obj == c {
					has = true
				}
			}
			// declared in the same scope (two result lists built together), both local
			if !has && a.obj.Parent() == c.Parent() {
				out = append(out, ParallelAppend{a.as, a.obj.Name(), c.Name()})
			}
		}
	}
	sort.Slice(out, func(i, j int) bool { return out[i].Stmt.Pos() < out[j].Stmt.Pos() })
	return out
}

// UserTypeOnlySwitch: a type switch over a data type has an arm for the concrete
// *UserTypeExpr but none for *ResultTypeExpr (nor for the UserType interface
// both implement): result types, which are user types, fall through to the
// default and are not handled.
func UserTypeOnlySwitches(f *Func) []*ast.TypeSwitchStmt {
	info := f.Pkg.TypesInfo
	var out []*ast.TypeSwitchStmt
	ast.Inspect(f.Decl.Body, func(nd ast.Node) bool {
		ts, ok := nd.(*ast.TypeSwitchStmt)
		if !ok {
			return true
		}
		hasUT, hasRT := false, false
		for _, st := range ts.Body.List {
			for _, e := range st.(*ast.CaseClause).List {
				t := info.TypeOf(e)
				if t == nil {
					continue
				}
				s := t.String()
				switch {
				case strings.HasSuffix(s, "/expr.UserTypeExpr"):
					hasUT = true
				case strings.HasSuffix(s, "/expr.ResultTypeExpr"), strings.HasSuffix(s, "/expr.UserType"):
					hasRT = true
				}
			}
		}
		if hasUT && !hasRT {
			out = append(out, ts)
		}
		return true
	})
	return out
}

// UseAfterPut: a value is handed back to a sync.Pool and then still used - or a
// slice obtained from it (buf.Bytes()) is: the pool may give the value to another
// goroutine, which overwrites it while it is being read here.
type UseAfterPut struct {
	Use  ast.Node
	Name string
}

func UseAfterPuts(f *Func) []UseAfterPut {
	info := f.Pkg.TypesInfo
	var out []UseAfterPut
	ast.Inspect(f.Decl.Body, func(nd ast.Node) bool {
		blk, ok := nd.(*ast.BlockStmt)
		if !ok {
			return true
		}
		for i, st := range blk.List {
			es, ok := st.(*ast.ExprStmt)
			if !ok {
				continue
			}
			call, ok := es.X.(*ast.CallExpr)
			if !ok || CalleeName(info, call) != "(*sync.Pool).Put" || len(call.Args) != 1 {
				continue
			}
			obj := ObjOf(info, call.Args[0])
			if obj == nil {
				continue
			}
			// aliases: variables defined before the Put from a method call on obj returning a slice
			tainted := map[types.Object]string{obj: obj.Name()}
			for _, before := range blk.List[:i] {
				as, ok := before.(*ast.AssignStmt)
				if !ok || len(as.Lhs) != 1 || len(as.Rhs) != 1 {
					continue
				}
				c2, ok := as.Rhs[0].(*ast.CallExpr)
				if !ok {
					continue
				}
				if se, ok := c2.Fun.(*ast.SelectorExpr); ok && ObjOf(info, se.X) == obj {
					if _, isSlice := info.TypeOf(c2).Underlying().(*types.Slice); isSlice {
						if lo := ObjOf(info, as.Lhs[0]); lo != nil {
							tainted[lo] = lo.Name() + " (= " + Src(f.Pkg.Fset, c2) + ")"
						}
					}
				}
			}
			for _, after := range blk.List[i+1:] {
				ast.Inspect(after, func(m ast.Node) bool {
					if id, ok := m.(*ast.Ident); ok {
						if name, bad := tainted[info.Uses[id]]; bad {
							out = append(out, UseAfterPut{id, name})
							return false
						}
					}
					return true
				})
			}
		}
		return true
	})
	return out
}

// SwallowedError: inside the branch where an error variable is known to be non-nil, the function returns nil in
// its error position: the failure is reported as success.
type SwallowedError struct {
	Ret *ast.ReturnStmt
	Err types.Object
}

// SwallowedErrors finds the pattern in f (functions whose last result is an error).
func SwallowedErrors(f *Func) []SwallowedError {
	info := f.Pkg.TypesInfo
	sig := f.Obj.Type().(*types.Signature)
	if sig.Results().Len() == 0 || !types.Identical(sig.Results().At(sig.Results().Len()-1).Type(), types.Universe.Lookup("error").Type()) {
		return nil
	}
	var out []SwallowedError
	var g *CFG
	WalkNoFuncLit(f.Decl.Body, func(n ast.Node) bool {
		rs, ok := n.(*ast.ReturnStmt)
		if !ok || len(rs.Results) != sig.Results().Len() || !IsNilIdent(info, rs.Results[len(rs.Results)-1]) {
			return true
		}
		if g == nil {
			g = NewCFG(info, f.Decl.Body)
		}
		facts, ok := g.FactsFor(rs)
		if !ok {
			return true
		}
		for _, fc := range facts {
			x, notNil, ok := NilCompare(info, fc.Cond)
			if !ok || notNil != fc.Holds {
				continue
			}
			o := ObjOf(info, x)
			if o == nil || !types.Identical(o.Type(), types.Universe.Lookup("error").Type()) {
				continue
			}
			// the error was handled if it is used (logged, recorded, compared) inside the branch before the return
			used := false
			if is, isIf := g.Parent[fc.Cond].(*ast.IfStmt); isIf {
				ast.Inspect(is.Body, func(m ast.Node) bool {
					if id, ok := m.(*ast.Ident); ok && info.Uses[id] == o && id.Pos() < rs.Pos() {
						used = true
					}
					return true
				})
			} else {
				used = true // not the plain `if err != nil {` shape: not judged
			}
			if !used {
				out = append(out, SwallowedError{rs, o})
			}
		}
		return true
	})
	return out
}

// PoolHygiene: a value taken from a sync.Pool carries whatever its previous user left in it. For every pool (a
// package-level variable or a struct field of type sync.Pool), either every function that Gets from it Resets the
// value before any other use, or every function that Puts into it Resets the value first. A pool whose users do
// neither hands one request's bytes to the next.
type PoolLeak struct {
	Pool string
	Get  *ast.CallExpr
	In   *Func
}

// PoolLeaks finds the pattern among funcs (all users of a pool must be in funcs).
func PoolLeaks(funcs []*Func) (pools int, out []PoolLeak) {
	type site struct {
		f     *Func
		call  *ast.CallExpr
		reset bool
	}
	gets, puts := map[types.Object][]site{}, map[types.Object][]site{}
	for _, f := range funcs {
		info := f.Pkg.TypesInfo
		poolOf := func(recv ast.Expr) types.Object {
			tv, ok := info.Types[recv]
			if !ok {
				return nil
			}
			t := tv.Type
			if p, isPtr := t.(*types.Pointer); isPtr {
				t = p.Elem()
			}
			if NamedTypeName(t) != "sync.Pool" {
				return nil
			}
			if fv := FieldOf(info, recv); fv != nil {
				return fv
			}
			if id := RootIdent(recv); id != nil {
				return ObjOf(info, id)
			}
			return nil
		}
		resetsOf := func(o types.Object, before, after token.Pos) bool {
			found := false
			ast.Inspect(f.Decl.Body, func(n ast.Node) bool {
				call, ok := n.(*ast.CallExpr)
				if !ok {
					return true
				}
				se, ok := Unparen(call.Fun).(*ast.SelectorExpr)
				if ok && (se.Sel.Name == "Reset" || se.Sel.Name == "Truncate") && ObjOf(info, se.X) == o && call.Pos() > after && (before == token.NoPos || call.Pos() < before) {
					found = true
				}
				return true
			})
			return found
		}
		ast.Inspect(f.Decl.Body, func(n ast.Node) bool {
			switch x := n.(type) {
			case *ast.AssignStmt:
				// v := pool.Get().(*T)  /  v, ok := pool.Get().(*T)
				if len(x.Rhs) != 1 {
					return true
				}
				rhs := Unparen(x.Rhs[0])
				if ta, ok := rhs.(*ast.TypeAssertExpr); ok {
					rhs = Unparen(ta.X)
				}
				call, ok := rhs.(*ast.CallExpr)
				if !ok {
					return true
				}
				se, ok := Unparen(call.Fun).(*ast.SelectorExpr)
				if !ok || se.Sel.Name != "Get" {
					return true
				}
				if p := poolOf(se.X); p != nil {
					v := ObjOf(info, x.Lhs[0])
					if v == nil || !hasResetMethod(v.Type()) {
						// a pooled type without Reset/Truncate is cleaned in some type-specific way the rule does not know: not decided
						return true
					}
					// reset before the first other use of v: the first statement mentioning v after the Get
					reset := false
					if v != nil {
						var firstUse token.Pos
						ast.Inspect(f.Decl.Body, func(m ast.Node) bool {
							if id, ok := m.(*ast.Ident); ok && info.Uses[id] == v && id.Pos() > x.End() && (firstUse == token.NoPos || id.Pos() < firstUse) {
								firstUse = id.Pos()
							}
							return true
						})
						reset = firstUse != token.NoPos && resetsOf(v, firstUse+20, x.End()) // the first use is the Reset call itself
					}
					gets[p] = append(gets[p], site{f, call, reset})
				}
			case *ast.CallExpr:
				se, ok := Unparen(x.Fun).(*ast.SelectorExpr)
				if !ok || se.Sel.Name != "Put" || len(x.Args) != 1 {
					return true
				}
				if p := poolOf(se.X); p != nil {
					reset := false
					if v := ObjOf(info, x.Args[0]); v != nil {
						reset = resetsOf(v, x.Pos(), token.NoPos)
					} else if fv := FieldOf(info, x.Args[0]); fv != nil {
						// a field of the receiver: accept a Reset on the same field expression before the Put
						ast.Inspect(f.Decl.Body, func(m ast.Node) bool {
							if call, ok := m.(*ast.CallExpr); ok && call.Pos() < x.Pos() {
								if s2, ok := Unparen(call.Fun).(*ast.SelectorExpr); ok && (s2.Sel.Name == "Reset" || s2.Sel.Name == "Truncate") && FieldOf(info, s2.X) == fv {
									reset = true
								}
							}
							return true
						})
					}
					puts[p] = append(puts[p], site{f, x, reset})
				}
			}
			return true
		})
	}
	for p, gs := range gets {
		pools++
		allGetsReset := true
		for _, g := range gs {
			if !g.reset {
				allGetsReset = false
			}
		}
		if len(puts[p]) == 0 {
			continue // nothing is ever returned to the pool: every Get is a fresh value
		}
		allPutsReset := true
		for _, q := range puts[p] {
			if !q.reset {
				allPutsReset = false
			}
		}
		if allGetsReset || allPutsReset {
			continue
		}
		for _, g := range gs {
			if !g.reset {
				out = append(out, PoolLeak{p.Name(), g.call, g.f})
			}
		}
	}
	sort.Slice(out, func(i, j int) bool { return out[i].Get.Pos() < out[j].Get.Pos() })
	return pools, out
}

func hasResetMethod(t types.Type) bool {
	for _, name := range []string{"Reset", "Truncate"} {
		if o, _, _ := types.LookupFieldOrMethod(t, true, nil, name); o != nil {
			if _, ok := o.(*types.Func); ok {
				return true
			}
		}
	}
	return false
}

// CopySlip is an identifier left unrenamed in one of two parallel field families of a keyed composite literal:
// the literal fills fields PxxxA, PxxxB, PxxxC and QxxxA, QxxxB, QxxxC from expressions that are the same up to a
// consistent renaming (userAtt→passAtt), except that one Q field still mentions the P identifier (or the reverse).
type CopySlip struct {
	Field string // the field whose value mentions the other family's identifier
	Has   string
	Want  string
	Pos   token.Pos
}

func camelSplit(name string) (first, rest string) {
	for i := 1; i < len(name); i++ {
		if name[i] >= 'A' && name[i] <= 'Z' && !(name[i-1] >= 'A' && name[i-1] <= 'Z') {
			return name[:i], name[i:]
		}
	}
	return name, ""
}

// identLeaves returns the identifiers of e in source order and the shape of e with every identifier blanked.
func identLeaves(fset *token.FileSet, e ast.Expr) (ids []*ast.Ident, shape string) {
	var sb strings.Builder
	ast.Inspect(e, func(n ast.Node) bool {
		switch x := n.(type) {
		case *ast.Ident:
			ids = append(ids, x)
			sb.WriteString("_ ")
		case *ast.BasicLit:
			sb.WriteString(x.Value + " ")
		case nil:
			sb.WriteString(") ")
		default:
			sb.WriteString(fmt.Sprintf("%T( ", n))
			if b, ok := n.(*ast.BinaryExpr); ok {
				sb.WriteString(b.Op.String() + " ")
			}
			if u, ok := n.(*ast.UnaryExpr); ok {
				sb.WriteString(u.Op.String() + " ")
			}
		}
		return true
	})
	return ids, sb.String()
}

// CopySlips returns the number of field-family pairs compared in f and the slips found.
func CopySlips(f *Func) (families int, out []CopySlip) {
	ast.Inspect(f.Decl.Body, func(n ast.Node) bool {
		lit, ok := n.(*ast.CompositeLit)
		if !ok {
			return true
		}
		bySuffix := map[string]map[string]ast.Expr{} // suffix -> prefix -> value
		prefixes := map[string]bool{}
		for _, el := range lit.Elts {
			kv, ok := el.(*ast.KeyValueExpr)
			if !ok {
				return true
			}
			k, ok := kv.Key.(*ast.Ident)
			if !ok {
				return true
			}
			p, s := camelSplit(k.Name)
			if s == "" {
				continue
			}
			if bySuffix[s] == nil {
				bySuffix[s] = map[string]ast.Expr{}
			}
			bySuffix[s][p] = kv.Value
			prefixes[p] = true
		}
		var ps []string
		for p := range prefixes {
			ps = append(ps, p)
		}
		sort.Strings(ps)
		for i, P := range ps {
			for _, Q := range ps[i+1:] {
				type pos struct {
					suffix string
					p, q   *ast.Ident
				}
				var all []pos
				shared := 0
				var sufs []string
				for s, m := range bySuffix {
					if m[P] != nil && m[Q] != nil {
						sufs = append(sufs, s)
					}
				}
				sort.Strings(sufs)
				for _, s := range sufs {
					pi, psh := identLeaves(f.Pkg.Fset, bySuffix[s][P])
					qi, qsh := identLeaves(f.Pkg.Fset, bySuffix[s][Q])
					if psh != qsh || len(pi) != len(qi) {
						continue
					}
					shared++
					for k := range pi {
						all = append(all, pos{s, pi[k], qi[k]})
					}
				}
				if shared < 3 {
					continue
				}
				families++
				// votes: in how many suffixes is x renamed to y (x != y)
				fwd, bwd := map[string]map[string]map[string]bool{}, map[string]map[string]map[string]bool{}
				vote := func(m map[string]map[string]map[string]bool, x, y, s string) {
					if m[x] == nil {
						m[x] = map[string]map[string]bool{}
					}
					if m[x][y] == nil {
						m[x][y] = map[string]bool{}
					}
					m[x][y][s] = true
				}
				for _, a := range all {
					if a.p.Name != a.q.Name {
						vote(fwd, a.p.Name, a.q.Name, a.suffix)
						vote(bwd, a.q.Name, a.p.Name, a.suffix)
					}
				}
				best := func(m map[string]map[string]map[string]bool, x string) (string, int) {
					by, n := "", 0
					if len(m[x]) != 1 {
						return "", 0 // renamed inconsistently: no evidence
					}
					for y, ss := range m[x] {
						by, n = y, len(ss)
					}
					return by, n
				}
				for _, a := range all {
					if a.p.Name != a.q.Name {
						continue
					}
					x := a.p.Name
					same := 0
					for _, b := range all {
						if b.p.Name == x && b.q.Name == x && b.suffix != a.suffix {
							same++
						}
					}
					if same > 0 {
						continue // x is shared by both families elsewhere too
					}
					if y, n := best(fwd, x); n >= 2 && fwd[y] == nil {
						out = append(out, CopySlip{Q + a.suffix, x, y, a.q.Pos()})
					} else if y, n := best(bwd, x); n >= 2 && bwd[y] == nil {
						out = append(out, CopySlip{P + a.suffix, x, y, a.p.Pos()})
					}
				}
			}
		}
		return true
	})
	return families, out
}

// IndexSpaceMix is an index of a re-sliced range (`for j := range xs[lo:]`) that is compared with an index of xs
// itself, or used to index xs: j counts from lo, not from 0, so `i != j` and `xs[j]` look at the wrong element.
type IndexSpaceMix struct {
	Inner *ast.RangeStmt
	Use   ast.Node
	Var   string
	Base  string
}

func IndexSpaceMixes(f *Func) []IndexSpaceMix {
	info := f.Pkg.TypesInfo
	var out []IndexSpaceMix
	ast.Inspect(f.Decl.Body, func(n ast.Node) bool {
		inner, ok := n.(*ast.RangeStmt)
		if !ok || inner.Key == nil {
			return true
		}
		se, ok := Unparen(inner.X).(*ast.SliceExpr)
		if !ok || se.Low == nil {
			return true
		}
		if bl, ok := Unparen(se.Low).(*ast.BasicLit); ok && bl.Value == "0" {
			return true
		}
		j := ObjOf(info, inner.Key)
		if j == nil {
			return true
		}
		base := types.ExprString(se.X)
		// indexes of the unsliced collection: keys of enclosing/other range statements over the same expression
		outerIdx := map[types.Object]bool{}
		ast.Inspect(f.Decl.Body, func(m ast.Node) bool {
			if r, ok := m.(*ast.RangeStmt); ok && r != inner && r.Key != nil && types.ExprString(r.X) == base && r.Pos() <= inner.Pos() && inner.End() <= r.End() {
				if o := ObjOf(info, r.Key); o != nil {
					outerIdx[o] = true
				}
			}
			return true
		})
		ast.Inspect(inner.Body, func(m ast.Node) bool {
			switch x := m.(type) {
			case *ast.BinaryExpr:
				switch x.Op {
				case token.EQL, token.NEQ, token.LSS, token.LEQ, token.GTR, token.GEQ:
					a, b := ObjOf(info, Unparen(x.X)), ObjOf(info, Unparen(x.Y))
					if (a == j && outerIdx[b]) || (b == j && outerIdx[a]) {
						out = append(out, IndexSpaceMix{inner, x, j.Name(), base})
					}
				}
			case *ast.IndexExpr:
				if types.ExprString(x.X) == base && ObjOf(info, Unparen(x.Index)) == j {
					out = append(out, IndexSpaceMix{inner, x, j.Name(), base})
				}
			}
			return true
		})
		return true
	})
	return out
}

// CloneCond is an if statement whose body is a verbatim copy of the body of at least two other if statements of the
// same function that all test one condition, while this one tests the same operands with another constant or
// comparison operator (len(x) > 1 where its clones test len(x) > 0).
type CloneCond struct {
	If       *ast.IfStmt
	Cond     string
	Majority string
	Clones   int
}

func condSkeleton(e ast.Expr) string {
	// the condition with integer literals and comparison operators blanked
	var sb strings.Builder
	var walk func(ast.Expr)
	walk = func(e ast.Expr) {
		switch x := Unparen(e).(type) {
		case *ast.BinaryExpr:
			walk(x.X)
			switch x.Op {
			case token.EQL, token.NEQ, token.LSS, token.LEQ, token.GTR, token.GEQ:
				sb.WriteString(" ? ")
			default:
				sb.WriteString(" " + x.Op.String() + " ")
			}
			walk(x.Y)
		case *ast.BasicLit:
			if x.Kind == token.INT {
				sb.WriteString("#")
			} else {
				sb.WriteString(x.Value)
			}
		default:
			sb.WriteString(types.ExprString(x))
		}
	}
	walk(e)
	return sb.String()
}

func CloneConds(f *Func) []CloneCond {
	type ent struct {
		s    *ast.IfStmt
		cond string
		skel string
	}
	groups := map[string][]ent{}
	ast.Inspect(f.Decl.Body, func(n ast.Node) bool {
		is, ok := n.(*ast.IfStmt)
		if !ok || is.Init != nil || is.Else != nil || len(is.Body.List) == 0 {
			return true
		}
		body := strings.Join(strings.Fields(Src(f.Pkg.Fset, is.Body)), " ")
		if len(body) < 40 {
			return true // trivial bodies (return nil, continue) are shared by unrelated guards
		}
		groups[body] = append(groups[body], ent{is, types.ExprString(is.Cond), condSkeleton(is.Cond)})
		return true
	})
	var out []CloneCond
	for _, g := range groups {
		if len(g) < 3 {
			continue
		}
		count := map[string]int{}
		for _, e := range g {
			count[e.cond]++
		}
		maj, majN := "", 0
		for c, n := range count {
			if n > majN {
				maj, majN = c, n
			}
		}
		if majN < 2 || majN != len(g)-1 {
			continue
		}
		var majSkel string
		for _, e := range g {
			if e.cond == maj {
				majSkel = e.skel
			}
		}
		for _, e := range g {
			if e.cond != maj && e.skel == majSkel {
				out = append(out, CloneCond{e.s, e.cond, maj, majN})
			}
		}
	}
	sort.Slice(out, func(i, j int) bool { return out[i].If.Pos() < out[j].If.Pos() })
	return out
}

// LookupBypass is a value looked up in a receiver (`v := r.View(name)`) that is only ever compared with nil, while
// the code after the test asks the receiver r itself for something v could have answered (r.Find where v.Find
// exists): the answer is computed on the container, not on the element that was just looked up.
type LookupBypass struct {
	Def  *ast.AssignStmt
	Var  string
	Recv string
	Sel  string
	Use  ast.Node
}

func LookupBypasses(f *Func) []LookupBypass {
	info := f.Pkg.TypesInfo
	var out []LookupBypass
	var g *CFG
	ast.Inspect(f.Decl.Body, func(n ast.Node) bool {
		as, ok := n.(*ast.AssignStmt)
		if !ok || as.Tok != token.DEFINE || len(as.Lhs) != 1 || len(as.Rhs) != 1 {
			return true
		}
		call, ok := Unparen(as.Rhs[0]).(*ast.CallExpr)
		if !ok {
			return true
		}
		se, ok := Unparen(call.Fun).(*ast.SelectorExpr)
		if !ok {
			return true
		}
		rid, ok := Unparen(se.X).(*ast.Ident)
		if !ok {
			return true
		}
		r := ObjOf(info, rid)
		if _, isVar := r.(*types.Var); !isVar {
			return true
		}
		vid, ok := as.Lhs[0].(*ast.Ident)
		if !ok || vid.Name == "_" {
			return true
		}
		v := info.Defs[vid]
		if v == nil {
			return true
		}
		switch v.Type().Underlying().(type) {
		case *types.Pointer, *types.Interface:
		default:
			return true
		}
		// every use of v is an operand of a nil comparison
		parents := ParentMap(f.Decl.Body)
		uses, nilOnly := 0, true
		ast.Inspect(f.Decl.Body, func(m ast.Node) bool {
			id, ok := m.(*ast.Ident)
			if !ok || info.Uses[id] != v {
				return true
			}
			uses++
			p := parents[id]
			for {
				if pe, ok := p.(*ast.ParenExpr); ok {
					p = parents[pe]
					continue
				}
				break
			}
			be, ok := p.(*ast.BinaryExpr)
			if !ok || (be.Op != token.EQL && be.Op != token.NEQ) || (!IsNilIdent(info, be.X) && !IsNilIdent(info, be.Y)) {
				nilOnly = false
			}
			return true
		})
		if uses == 0 || !nilOnly {
			return true
		}
		// a later question to r that v could answer
		ast.Inspect(f.Decl.Body, func(m ast.Node) bool {
			s2, ok := m.(*ast.SelectorExpr)
			if !ok || s2.Pos() < as.End() {
				return true
			}
			id, ok := Unparen(s2.X).(*ast.Ident)
			if !ok || ObjOf(info, id) != r || s2.Sel.Name == se.Sel.Name {
				return true
			}
			o, _, _ := types.LookupFieldOrMethod(v.Type(), true, f.Pkg.Types, s2.Sel.Name)
			o2, _, _ := types.LookupFieldOrMethod(r.Type(), true, f.Pkg.Types, s2.Sel.Name)
			// the same question: one method or field promoted into both types from a common embedded type, or the
			// embedded value of one type itself (two unrelated fields that merely share a name are two questions)
			same := o != nil && o == o2
			if fv, ok := o.(*types.Var); ok && !same {
				if fv2, ok := o2.(*types.Var); ok && fv.Embedded() && fv2.Embedded() && types.Identical(fv.Type(), fv2.Type()) {
					same = true
				}
			}
			if same {
				// only where v is known to be non-nil (where it is nil there is nothing else to ask)
				if g == nil {
					g = NewCFG(info, f.Decl.Body)
				}
				if g.NonNilAtNode(v, s2) {
					out = append(out, LookupBypass{as, vid.Name, rid.Name, s2.Sel.Name, s2})
				}
			}
			return true
		})
		return true
	})
	return out
}

// AliasStore is an element store into a slice or map field of a value obtained from a copier that shares that field
// with its argument (`res := d.DupAttribute(att)` returns &T{Bases: att.Bases, …}; `res.Bases[i] = …` then writes
// into att's own backing array): the "copy" is customised and the original changes with it.
type AliasStore struct {
	Store  *ast.AssignStmt
	Var    string
	Field  string
	Copier string
}

func declOfFunc(pkg *packages.Package, fn *types.Func) (*ast.FuncDecl, *types.Info) {
	if fn == nil || fn.Pkg() == nil {
		return nil, nil
	}
	cands := []*packages.Package{pkg}
	if p := pkg.Imports[fn.Pkg().Path()]; p != nil {
		cands = append(cands, p)
	}
	for _, p := range cands {
		if p.Types != fn.Pkg() || p.TypesInfo == nil {
			continue
		}
		for _, file := range p.Syntax {
			for _, d := range file.Decls {
				if fd, ok := d.(*ast.FuncDecl); ok && p.TypesInfo.Defs[fd.Name] == fn {
					return fd, p.TypesInfo
				}
			}
		}
	}
	return nil, nil
}

// sharedFieldsOf returns the slice/map fields that every struct literal returned by fd takes as is from the like-named
// field of one of fd's parameters.
func sharedFieldsOf(fd *ast.FuncDecl, info *types.Info) map[string]bool {
	out := map[string]bool{}
	if fd == nil || fd.Body == nil {
		return out
	}
	params := map[types.Object]bool{}
	if fd.Type.Params != nil {
		for _, fl := range fd.Type.Params.List {
			for _, n := range fl.Names {
				params[info.Defs[n]] = true
			}
		}
	}
	ast.Inspect(fd.Body, func(n ast.Node) bool {
		kv, ok := n.(*ast.KeyValueExpr)
		if !ok {
			return true
		}
		k, ok := kv.Key.(*ast.Ident)
		if !ok {
			return true
		}
		se, ok := Unparen(kv.Value).(*ast.SelectorExpr)
		if !ok || se.Sel.Name != k.Name {
			return true
		}
		id, ok := Unparen(se.X).(*ast.Ident)
		if !ok || !params[ObjOf(info, id)] {
			return true
		}
		if tv, ok := info.Types[kv.Value]; ok {
			switch tv.Type.Underlying().(type) {
			case *types.Slice, *types.Map:
				out[k.Name] = true
			}
		}
		return true
	})
	return out
}

func AliasStores(f *Func) []AliasStore {
	info := f.Pkg.TypesInfo
	type origin struct {
		fields map[string]bool
		name   string
		pos    token.Pos
	}
	from := map[types.Object]origin{}
	ast.Inspect(f.Decl.Body, func(n ast.Node) bool {
		as, ok := n.(*ast.AssignStmt)
		if !ok || len(as.Lhs) != 1 || len(as.Rhs) != 1 {
			return true
		}
		call, ok := Unparen(as.Rhs[0]).(*ast.CallExpr)
		if !ok {
			return true
		}
		id, ok := as.Lhs[0].(*ast.Ident)
		if !ok {
			return true
		}
		fn, _ := Callee(info, call).(*types.Func)
		fd, finfo := declOfFunc(f.Pkg, fn)
		if fd == nil {
			return true
		}
		if sh := sharedFieldsOf(fd, finfo); len(sh) > 0 {
			if o := ObjOf(info, id); o != nil {
				from[o] = origin{sh, fn.Name(), as.End()}
			}
		}
		return true
	})
	if len(from) == 0 {
		return nil
	}
	var out []AliasStore
	ast.Inspect(f.Decl.Body, func(n ast.Node) bool {
		as, ok := n.(*ast.AssignStmt)
		if !ok {
			return true
		}
		for _, l := range as.Lhs {
			ix, ok := Unparen(l).(*ast.IndexExpr)
			if !ok {
				continue
			}
			se, ok := Unparen(ix.X).(*ast.SelectorExpr)
			if !ok {
				continue
			}
			id, ok := Unparen(se.X).(*ast.Ident)
			if !ok {
				continue
			}
			o := ObjOf(info, id)
			og, ok := from[o]
			if !ok || !og.fields[se.Sel.Name] || as.Pos() < og.pos {
				continue
			}
			// a whole-field store between the copy and the element store gives the copy a field of its own
			fresh := false
			ast.Inspect(f.Decl.Body, func(m ast.Node) bool {
				a2, ok := m.(*ast.AssignStmt)
				if !ok || a2.Pos() < og.pos || a2.Pos() >= as.Pos() {
					return true
				}
				for _, l2 := range a2.Lhs {
					if s2, ok := Unparen(l2).(*ast.SelectorExpr); ok && s2.Sel.Name == se.Sel.Name {
						if i2, ok := Unparen(s2.X).(*ast.Ident); ok && ObjOf(info, i2) == o {
							fresh = true
						}
					}
				}
				return true
			})
			if !fresh {
				out = append(out, AliasStore{as, id.Name, se.Sel.Name, og.name})
			}
		}
		return true
	})
	return out
}

// ConsumedArg is a call, made inside a loop with an argument that does not change from one iteration to the next, of
// a function that consumes an entry of a map reached through that argument: it reads m[k] and then deletes it. The
// first iteration finds the entry, every later one finds nothing (a nil slice, a zero value) where the first found
// data.
type ConsumedArg struct {
	Call   *ast.CallExpr
	Callee string
	Arg    string
	Map    string
}

// consumingParams returns, per parameter index of fd, the map expression the function reads and then deletes from.
func consumingParams(fd *ast.FuncDecl, info *types.Info) map[int]string {
	out := map[int]string{}
	if fd == nil || fd.Body == nil || fd.Type.Params == nil {
		return out
	}
	idx := map[types.Object]int{}
	i := 0
	for _, fl := range fd.Type.Params.List {
		if len(fl.Names) == 0 {
			i++
			continue
		}
		for _, n := range fl.Names {
			idx[info.Defs[n]] = i
			i++
		}
	}
	ast.Inspect(fd.Body, func(n ast.Node) bool {
		call, ok := n.(*ast.CallExpr)
		if !ok || len(call.Args) != 2 {
			return true
		}
		id, ok := call.Fun.(*ast.Ident)
		if !ok || id.Name != "delete" {
			return true
		}
		if _, isBuiltin := info.Uses[id].(*types.Builtin); !isBuiltin {
			return true
		}
		root := RootIdent(call.Args[0])
		if root == nil {
			return true
		}
		pi, isParam := idx[ObjOf(info, root)]
		if !isParam {
			return true
		}
		m, k := types.ExprString(call.Args[0]), types.ExprString(call.Args[1])
		// a read of the same entry before the delete
		read := false
		ast.Inspect(fd.Body, func(x ast.Node) bool {
			ix, ok := x.(*ast.IndexExpr)
			if ok && ix.Pos() < call.Pos() && types.ExprString(ix.X) == m && types.ExprString(ix.Index) == k {
				read = true
			}
			return true
		})
		if read {
			out[pi] = m
		}
		return true
	})
	return out
}

func ConsumedArgs(f *Func) []ConsumedArg {
	info := f.Pkg.TypesInfo
	var out []ConsumedArg
	var loops []ast.Node
	ast.Inspect(f.Decl.Body, func(n ast.Node) bool {
		switch n.(type) {
		case *ast.ForStmt, *ast.RangeStmt:
			loops = append(loops, n)
		}
		return true
	})
	if len(loops) == 0 {
		return nil
	}
	ast.Inspect(f.Decl.Body, func(n ast.Node) bool {
		call, ok := n.(*ast.CallExpr)
		if !ok {
			return true
		}
		var inner ast.Node
		for _, l := range loops {
			if l.Pos() <= call.Pos() && call.End() <= l.End() {
				inner = l // the last one found is the innermost (pre-order)
			}
		}
		if inner == nil {
			return true
		}
		fn, _ := Callee(info, call).(*types.Func)
		fd, finfo := declOfFunc(f.Pkg, fn)
		if fd == nil {
			return true
		}
		for pi, m := range consumingParams(fd, finfo) {
			if pi >= len(call.Args) {
				continue
			}
			arg := call.Args[pi]
			invariant := true
			ast.Inspect(arg, func(x ast.Node) bool {
				if id, ok := x.(*ast.Ident); ok {
					if o := ObjOf(info, id); o != nil && inner.Pos() <= o.Pos() && o.Pos() < inner.End() {
						invariant = false
					}
				}
				return true
			})
			if invariant {
				out = append(out, ConsumedArg{call, fn.Name(), types.ExprString(arg), m})
			}
		}
		return true
	})
	return out
}

func sameTextNote(a, b ast.Expr) string {
	if types.ExprString(a) == types.ExprString(b) {
		return " (the same text, but one of its identifiers is a different variable at the two places: a declaration in between shadows it)"
	}
	return ""
}

// WrongSide is a method of a type named after one side of a pair (…Response…) that reads a struct field named after
// the other side (SkipRequestBodyEncodeDecode) although the same struct has the field of its own side
// (SkipResponseBodyEncodeDecode): the twin field was meant.
type WrongSide struct {
	Sel  *ast.SelectorExpr
	Has  string
	Twin string
}

var sidePairs = [][2]string{{"Request", "Response"}}

func WrongSides(f *Func) []WrongSide {
	if f.Decl.Recv == nil || len(f.Decl.Recv.List) == 0 {
		return nil
	}
	recv := types.ExprString(f.Decl.Recv.List[0].Type)
	info := f.Pkg.TypesInfo
	var out []WrongSide
	for _, pr := range sidePairs {
		for k := 0; k < 2; k++ {
			mine, other := pr[k], pr[1-k]
			if !strings.Contains(recv, mine) || strings.Contains(recv, other) {
				continue
			}
			ast.Inspect(f.Decl.Body, func(n ast.Node) bool {
				se, ok := n.(*ast.SelectorExpr)
				if !ok || !strings.Contains(se.Sel.Name, other) || strings.Contains(se.Sel.Name, mine) {
					return true
				}
				sel := info.Selections[se]
				if sel == nil || sel.Kind() != types.FieldVal {
					return true
				}
				twin := strings.Replace(se.Sel.Name, other, mine, 1)
				if o, _, _ := types.LookupFieldOrMethod(sel.Recv(), true, f.Pkg.Types, twin); o != nil {
					if tv, ok := o.(*types.Var); ok && tv.IsField() && types.Identical(tv.Type(), sel.Obj().Type()) {
						out = append(out, WrongSide{se, se.Sel.Name, twin})
					}
				}
				return true
			})
		}
	}
	return out
}

// PositionalMismatch is an unkeyed struct literal one of whose values is `x.F` for a field name F of the literal's
// own struct type, placed at the position of another field G: the value named F fills G (while some other position
// fills F), which compiles whenever F and G have one type.
type PositionalMismatch struct {
	Lit   *ast.CompositeLit
	Value string
	Into  string
}

func PositionalMismatches(f *Func) []PositionalMismatch {
	info := f.Pkg.TypesInfo
	var out []PositionalMismatch
	ast.Inspect(f.Decl.Body, func(n ast.Node) bool {
		cl, ok := n.(*ast.CompositeLit)
		if !ok || len(cl.Elts) < 2 {
			return true
		}
		if _, keyed := cl.Elts[0].(*ast.KeyValueExpr); keyed {
			return true
		}
		tv, ok := info.Types[cl]
		if !ok {
			return true
		}
		st, ok := tv.Type.Underlying().(*types.Struct)
		if !ok || st.NumFields() != len(cl.Elts) {
			return true
		}
		names := map[string]int{}
		for i := 0; i < st.NumFields(); i++ {
			names[st.Field(i).Name()] = i
		}
		for i, e := range cl.Elts {
			se, ok := Unparen(e).(*ast.SelectorExpr)
			if !ok {
				continue
			}
			if j, isField := names[se.Sel.Name]; isField && j != i && types.Identical(st.Field(i).Type(), st.Field(j).Type()) {
				out = append(out, PositionalMismatch{cl, types.ExprString(se), st.Field(i).Name()})
			}
		}
		return true
	})
	return out
}

func isParamOf(f *Func, v *types.Var) bool {
	if f.Obj == nil {
		return false
	}
	sig, ok := f.Obj.Type().(*types.Signature)
	if !ok {
		return false
	}
	for i := 0; i < sig.Params().Len(); i++ {
		if sig.Params().At(i) == v {
			return true
		}
	}
	return false
}

// LastWinsFlag is a boolean declared before a loop that the loop body overwrites, unconditionally and at its top
// level, with a value computed from the loop element, that nothing inside the loop reads (so no break or
// accumulation depends on it) and that is read after the loop: the answer for the last element replaces the answers
// for all the others. The idioms of the tree are `if q(e) { flag = true; break }` and `flag = flag || q(e)`.
type LastWinsFlag struct {
	Var    *types.Var
	Assign *ast.AssignStmt
}

func LastWinsFlags(f *Func) []LastWinsFlag {
	info := f.Pkg.TypesInfo
	var out []LastWinsFlag
	ast.Inspect(f.Decl.Body, func(n ast.Node) bool {
		rs, ok := n.(*ast.RangeStmt)
		if !ok || rs.Body == nil {
			return true
		}
		elems := map[types.Object]bool{}
		for _, e := range []ast.Expr{rs.Key, rs.Value} {
			if id, ok := e.(*ast.Ident); ok && id.Name != "_" {
				if o := info.ObjectOf(id); o != nil {
					elems[o] = true
				}
			}
		}
		if len(elems) == 0 {
			return true
		}
		for _, st := range rs.Body.List {
			as, ok := st.(*ast.AssignStmt)
			if !ok || as.Tok != token.ASSIGN || len(as.Lhs) != 1 || len(as.Rhs) != 1 {
				continue
			}
			id, ok := as.Lhs[0].(*ast.Ident)
			if !ok {
				continue
			}
			v, ok := info.ObjectOf(id).(*types.Var)
			if !ok || v.IsField() || v.Pos() >= rs.Pos() || v.Pos() < f.Decl.Pos() {
				continue
			}
			if b, ok := v.Type().Underlying().(*types.Basic); !ok || b.Kind() != types.Bool {
				continue
			}
			usesElem, usesSelf := false, false
			ast.Inspect(as.Rhs[0], func(m ast.Node) bool {
				if i, ok := m.(*ast.Ident); ok {
					if o := info.ObjectOf(i); o != nil {
						if elems[o] {
							usesElem = true
						}
						if o == v {
							usesSelf = true
						}
					}
				}
				return true
			})
			if !usesElem || usesSelf {
				continue
			}
			readIn, readAfter := false, false
			ast.Inspect(f.Decl.Body, func(m ast.Node) bool {
				i, ok := m.(*ast.Ident)
				if !ok || info.ObjectOf(i) != v || i == id {
					return true
				}
				if i.Pos() >= rs.Body.Pos() && i.End() <= rs.Body.End() {
					readIn = true // read, tested or assigned again inside the loop: some other discipline is at work
				} else if i.Pos() > rs.End() {
					readAfter = true
				}
				return true
			})
			if !readIn && readAfter {
				out = append(out, LastWinsFlag{v, as})
			}
		}
		return true
	})
	return out
}

// UnusedIndexGuard is an if statement whose condition tests that an integer variable is a found position
// (v >= 0, v > -1, v != -1) and whose body indexes some sequence but never mentions v: the position that was
// searched for and validated is not the one used.
type UnusedIndexGuard struct {
	Var *types.Var
	If  *ast.IfStmt
}

func UnusedIndexGuards(f *Func) []UnusedIndexGuard {
	info := f.Pkg.TypesInfo
	var out []UnusedIndexGuard
	ast.Inspect(f.Decl.Body, func(n ast.Node) bool {
		is, ok := n.(*ast.IfStmt)
		if !ok || is.Else != nil {
			return true
		}
		var cand []*types.Var
		ast.Inspect(is.Cond, func(m ast.Node) bool {
			be, ok := m.(*ast.BinaryExpr)
			if !ok {
				return true
			}
			id, ok := be.X.(*ast.Ident)
			if !ok {
				return true
			}
			v, ok := info.ObjectOf(id).(*types.Var)
			if !ok || v.IsField() {
				return true
			}
			if b, ok := v.Type().Underlying().(*types.Basic); !ok || b.Info()&types.IsInteger == 0 {
				return true
			}
			y := types.ExprString(be.Y)
			if (be.Op == token.GEQ && y == "0") || (be.Op == token.GTR && y == "-1") || (be.Op == token.NEQ && y == "-1") {
				cand = append(cand, v)
			}
			return true
		})
		for _, v := range cand {
			indexes, mentions := false, false
			ast.Inspect(is.Body, func(m ast.Node) bool {
				switch x := m.(type) {
				case *ast.IndexExpr:
					if tv, ok := info.Types[x.X]; ok {
						switch tv.Type.Underlying().(type) {
						case *types.Slice, *types.Array:
							indexes = true
						}
					}
				case *ast.Ident:
					if info.ObjectOf(x) == v {
						mentions = true
					}
				}
				return true
			})
			if indexes && !mentions {
				out = append(out, UnusedIndexGuard{v, is})
			}
		}
		return true
	})
	return out
}
