package an

import (
	"fmt"
	"go/token"
	"go/types"
)

// LintHit is one finding of the control-flow lints (AllLints): stale search
// flags, stale per-iteration variables, seen-set key mismatches, dropped
// recursion guards, in-place slice reuse. Construct is "<func>#<kind>(<var>)".
type LintHit struct {
	Kind      string
	Construct string
	Pos       token.Pos
	Msg       string
}

// AllLints runs every control-flow lint on f.
func AllLints(f *Func) []LintHit {
	var out []LintHit
	pos := func(p token.Pos) string { return f.Pkg.Fset.Position(p).String() }
	for _, sf := range StaleFlags(f) {
		out = append(out, LintHit{"flag", fmt.Sprintf("%s#flag(%s)", f.Name, sf.Var.Name()), sf.Set.Pos(),
			fmt.Sprintf("search flag %s is set in an inner loop and tested at %s in the enclosing loop without being reset per iteration: after the first hit every later iteration is treated as a hit", sf.Var.Name(), pos(sf.Read.Pos()))})
	}
	for _, sv := range StaleLoopVars(f) {
		out = append(out, LintHit{"var", fmt.Sprintf("%s#var(%s)", f.Name, sv.Var.Name()), sv.Set.Pos(),
			fmt.Sprintf("per-iteration variable %s is assigned conditionally inside the loop but declared outside it; its read at %s can see the previous iteration's value", sv.Var.Name(), pos(sv.Read.Pos()))})
	}
	for _, m := range MemoKeyMismatches(f) {
		out = append(out, LintHit{"memo", fmt.Sprintf("%s#memo(%s)", f.Name, m.Map.Name()), m.Store.Pos(),
			fmt.Sprintf("set %s is tested under key %s but filled under key %s", m.Map.Name(), types.ExprString(m.Lookup), types.ExprString(m.Store))})
	}
	for _, p := range SelfRecursionDrops(f) {
		out = append(out, LintHit{"recursion", f.Name + "#recursion-guard", f.Decl.Pos(), p})
	}
	for _, sr := range SliceReuses(f) {
		out = append(out, LintHit{"slice", fmt.Sprintf("%s#slice(%s)", f.Name, sr.Var.Name()), sr.Reset.Pos(),
			fmt.Sprintf("slice %s is truncated in place and stored in the same loop: every stored value shares one backing array", sr.Var.Name())})
	}
	return out
}
