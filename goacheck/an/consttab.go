package an

import (
	"fmt"
	"go/ast"
	"go/constant"
	"go/token"
	"go/types"
	"strings"

	"golang.org/x/tools/go/ssa"
)

// Constant lookup tables. A switch over a value and a package-level map
// literal indexed by that value are two spellings of one decision. Path tables
// therefore read a lookup in a map that is (1) a package-level variable
// initialised by a composite literal with constant keys and (2) never written
// anywhere else in its package, as the switch it stands for: the path forks over
// the entries (and "no entry"), the key comparisons become atoms, and the
// looked-up value is the entry's value. Struct keys are compared field by field.

type globalInit struct {
	expr ast.Expr
	info *types.Info
}

// globalInitExprs: initialiser of every package-level variable of the tree under analysis (set by Load).
var globalInitExprs = map[types.Object]globalInit{}

func (c *Ctx) registerGlobalInits() {
	globalInitExprs = map[types.Object]globalInit{}
	for path, p := range c.Pkgs {
		if !strings.HasPrefix(path, Mod) {
			continue
		}
		for _, file := range p.Syntax {
			for _, d := range file.Decls {
				gd, ok := d.(*ast.GenDecl)
				if !ok || gd.Tok != token.VAR {
					continue
				}
				for _, sp := range gd.Specs {
					vs := sp.(*ast.ValueSpec)
					if len(vs.Values) != len(vs.Names) {
						continue
					}
					for i, nm := range vs.Names {
						if o := p.TypesInfo.Defs[nm]; o != nil {
							globalInitExprs[o] = globalInit{vs.Values[i], p.TypesInfo}
						}
					}
				}
			}
		}
	}
}

type tabField struct {
	name string
	val  string // constant term
	bool bool
}

type tabEntry struct {
	key    string     // constant term (basic keys)
	fields []tabField // struct keys
	val    string
}

type constTable struct {
	entries   []tabEntry
	structKey bool
	zero      string
}

var constTableCache = map[*ssa.Global]*constTable{}

// knownFuncTerms: function-valued entries of constant tables, by term; a dynamic call of such a term is a call
// of that function.
var knownFuncTerms = map[string]*ssa.Function{}

// constValTerm renders a constant expression the way constTerm renders an SSA constant.
func constValTerm(info *types.Info, e ast.Expr) (string, bool) {
	tv, ok := info.Types[e]
	if !ok || tv.Value == nil {
		if ok && tv.IsNil() {
			return "nil", true
		}
		return "", false
	}
	switch tv.Value.Kind() {
	case constant.String:
		return fmt.Sprintf("%q", constant.StringVal(tv.Value)), true
	case constant.Bool:
		if constant.BoolVal(tv.Value) {
			return "true", true
		}
		return "false", true
	case constant.Int:
		return tv.Value.ExactString(), true
	}
	return tv.Value.String(), true
}

// tableValueTerm renders a table value: a constant, a struct literal of such values, or a declared function.
func tableValueTerm(prog *ssa.Program, info *types.Info, e ast.Expr, t types.Type) (string, bool) {
	e = Unparen(e)
	if s, ok := constValTerm(info, e); ok {
		return s, true
	}
	switch x := e.(type) {
	case *ast.CompositeLit:
		st, ok := t.Underlying().(*types.Struct)
		if !ok {
			return "", false
		}
		n, _ := t.(*types.Named)
		var parts []string
		for i, el := range x.Elts {
			var fname string
			var fe ast.Expr
			var ft types.Type
			if kv, ok := el.(*ast.KeyValueExpr); ok {
				id, ok := kv.Key.(*ast.Ident)
				if !ok {
					return "", false
				}
				for j := 0; j < st.NumFields(); j++ {
					if st.Field(j).Name() == id.Name {
						fname, ft = canonField(n, st, j), st.Field(j).Type()
					}
				}
				fe = kv.Value
			} else if i < st.NumFields() {
				fname, fe, ft = canonField(n, st, i), el, st.Field(i).Type()
			}
			if fname == "" {
				return "", false
			}
			v, ok := tableValueTerm(prog, info, fe, ft)
			if !ok {
				return "", false
			}
			parts = append(parts, fname+": "+v)
		}
		return structTypeName(t) + "{" + strings.Join(parts, ", ") + "}", true
	case *ast.FuncLit:
		// a literal in a package-level initialiser is an anonymous function of the package's init
		for _, pkg := range prog.AllPackages() {
			initFn := pkg.Func("init")
			if initFn == nil {
				continue
			}
			for _, af := range initFn.AnonFuncs {
				if af.Pos() == x.Type.Func {
					name := funcName(af)
					knownFuncTerms[name] = af
					return name, true
				}
			}
		}
	case *ast.Ident, *ast.SelectorExpr:
		var id *ast.Ident
		if s, ok := x.(*ast.SelectorExpr); ok {
			id = s.Sel
		} else {
			id = x.(*ast.Ident)
		}
		if fo, ok := info.Uses[id].(*types.Func); ok {
			if sf := prog.FuncValue(fo); sf != nil {
				knownFuncTerms[funcName(sf)] = sf
				return funcName(sf), true
			}
		}
	}
	return "", false
}

// globalNeverWritten: no instruction of g's package outside the package initialiser stores to g or updates
// the map it holds.
func globalNeverWritten(g *ssa.Global) bool {
	pkg := g.Pkg
	if pkg == nil {
		return false
	}
	fromG := func(v ssa.Value) bool {
		for i := 0; i < 4; i++ {
			switch x := v.(type) {
			case *ssa.UnOp:
				v = x.X
			case *ssa.Global:
				return x == g
			default:
				return false
			}
		}
		return false
	}
	ok := true
	check := func(fn *ssa.Function) {
		for _, b := range fn.Blocks {
			for _, in := range b.Instrs {
				switch x := in.(type) {
				case *ssa.Store:
					if x.Addr == ssa.Value(g) {
						ok = false
					}
				case *ssa.MapUpdate:
					if fromG(x.Map) {
						ok = false
					}
				case *ssa.Call:
					// delete(m, k), clear(m)
					if bi, isB := x.Call.Value.(*ssa.Builtin); isB && (bi.Name() == "delete" || bi.Name() == "clear") && len(x.Call.Args) > 0 && fromG(x.Call.Args[0]) {
						ok = false
					}
				}
			}
		}
	}
	for _, m := range pkg.Members {
		if fn, isFn := m.(*ssa.Function); isFn && fn.Name() != "init" {
			for _, f := range AllFunctions(fn) {
				check(f)
			}
		}
		if tn, isT := m.(*ssa.Type); isT {
			for _, recv := range []types.Type{tn.Type(), types.NewPointer(tn.Type())} {
				ms := pkg.Prog.MethodSets.MethodSet(recv)
				for i := 0; i < ms.Len(); i++ {
					if fn := pkg.Prog.MethodValue(ms.At(i)); fn != nil && fn.Pkg == pkg {
						for _, f := range AllFunctions(fn) {
							check(f)
						}
					}
				}
			}
		}
	}
	return ok
}

// constTableOf returns the constant table held by map-typed global g, or nil.
func constTableOf(g *ssa.Global) *constTable {
	if t, done := constTableCache[g]; done {
		return t
	}
	constTableCache[g] = nil
	gi, ok := globalInitExprs[g.Object()]
	if !ok || g.Pkg == nil || !strings.HasPrefix(g.Pkg.Pkg.Path(), Mod) {
		return nil
	}
	// only tables introduced since the reference tree (a switch turned into data): the tables of the
	// reference tree are what its rules were written against
	if _, known := referenceGlobals[strings.ReplaceAll(g.Pkg.Pkg.Path(), Mod+"/", "")][canonGlobal(g.Pkg.Pkg, g.Name(), g.Object().Type())]; known {
		return nil
	}
	cl, ok := Unparen(gi.expr).(*ast.CompositeLit)
	if !ok {
		return nil
	}
	mt, ok := g.Object().Type().Underlying().(*types.Map)
	if !ok || len(cl.Elts) == 0 || len(cl.Elts) > 40 {
		return nil
	}
	tab := &constTable{zero: zeroTerm(mt.Elem())}
	kst, structKey := mt.Key().Underlying().(*types.Struct)
	tab.structKey = structKey
	kn, _ := mt.Key().(*types.Named)
	for _, el := range cl.Elts {
		kv, ok := el.(*ast.KeyValueExpr)
		if !ok {
			return nil
		}
		val, ok := tableValueTerm(g.Pkg.Prog, gi.info, kv.Value, mt.Elem())
		if !ok {
			return nil
		}
		e := tabEntry{val: val}
		if structKey {
			kcl, ok := Unparen(kv.Key).(*ast.CompositeLit)
			if !ok {
				return nil
			}
			set := map[string]string{}
			for i, fe := range kcl.Elts {
				if fkv, ok := fe.(*ast.KeyValueExpr); ok {
					id, ok := fkv.Key.(*ast.Ident)
					v, ok2 := constValTerm(gi.info, fkv.Value)
					if !ok || !ok2 {
						return nil
					}
					set[id.Name] = v
				} else if i < kst.NumFields() {
					v, ok := constValTerm(gi.info, fe)
					if !ok {
						return nil
					}
					set[kst.Field(i).Name()] = v
				}
			}
			for i := 0; i < kst.NumFields(); i++ {
				f := kst.Field(i)
				b, isB := f.Type().Underlying().(*types.Basic)
				if !isB {
					return nil
				}
				v, has := set[f.Name()]
				if !has {
					v = zeroTerm(f.Type())
				}
				e.fields = append(e.fields, tabField{canonField(kn, kst, i), v, b.Info()&types.IsBoolean != 0})
			}
		} else {
			k, ok := constValTerm(gi.info, kv.Key)
			if !ok {
				return nil
			}
			e.key = k
		}
		tab.entries = append(tab.entries, e)
	}
	if !globalNeverWritten(g) {
		return nil
	}
	constTableCache[g] = tab
	return tab
}

// tableBranch is one outcome of a constant-table lookup: the atoms that select it and the value found.
type tableBranch struct {
	atoms []Atom
	val   string
	found bool
}

// expand lists the outcomes of looking key (a term) up in the table.
func (t *constTable) expand(key string, keyType types.Type) []tableBranch {
	var out []tableBranch
	if !t.structKey {
		if isConstTerm(key) {
			for _, e := range t.entries {
				if e.key == key {
					return []tableBranch{{nil, e.val, true}}
				}
			}
			return []tableBranch{{nil, t.zero, false}}
		}
		var none []Atom
		for _, e := range t.entries {
			a, pol := normAtom("(" + key + " == " + e.key + ")")
			out = append(out, tableBranch{[]Atom{{a, pol}}, e.val, true})
			none = append(none, Atom{a, !pol})
		}
		out = append(out, tableBranch{none, t.zero, false})
		return out
	}
	// struct key: every combination of the values the entries distinguish, field by field
	st, _ := keyType.Underlying().(*types.Struct)
	if st == nil || len(t.entries) == 0 {
		return nil
	}
	nf := len(t.entries[0].fields)
	type choice struct {
		atoms []Atom
		val   string // constant the field equals, "" for "none of the listed ones"
	}
	perField := make([][]choice, nf)
	for i := 0; i < nf; i++ {
		ft, ok := structField(key, t.entries[0].fields[i].name, st.Field(i).Type())
		if !ok {
			return nil
		}
		if isConstTerm(ft) || ft == "true" || ft == "false" {
			perField[i] = []choice{{nil, ft}}
			continue
		}
		if t.entries[0].fields[i].bool {
			a, pol := normAtom(ft)
			perField[i] = []choice{{[]Atom{{a, pol}}, "true"}, {[]Atom{{a, !pol}}, "false"}}
			continue
		}
		seen := map[string]bool{}
		var none []Atom
		for _, e := range t.entries {
			c := e.fields[i].val
			if seen[c] {
				continue
			}
			seen[c] = true
			a, pol := normAtom("(" + ft + " == " + c + ")")
			perField[i] = append(perField[i], choice{[]Atom{{a, pol}}, c})
			none = append(none, Atom{a, !pol})
		}
		perField[i] = append(perField[i], choice{none, ""})
	}
	total := 1
	for _, cs := range perField {
		total *= len(cs)
		if total > 256 {
			return nil
		}
	}
	idx := make([]int, nf)
	for {
		var atoms []Atom
		vals := make([]string, nf)
		for i := 0; i < nf; i++ {
			ch := perField[i][idx[i]]
			atoms = append(atoms, ch.atoms...)
			vals[i] = ch.val
		}
		br := tableBranch{atoms, t.zero, false}
		for _, e := range t.entries {
			match := true
			for i := 0; i < nf; i++ {
				if e.fields[i].val != vals[i] {
					match = false
				}
			}
			if match {
				br.val, br.found = e.val, true
			}
		}
		out = append(out, br)
		i := nf - 1
		for ; i >= 0; i-- {
			idx[i]++
			if idx[i] < len(perField[i]) {
				break
			}
			idx[i] = 0
		}
		if i < 0 {
			break
		}
	}
	return out
}
