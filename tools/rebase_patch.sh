#!/bin/sh
# usage: rebase_patch.sh <patch> <base-commit> ; rewrites the patch against /repo HEAD by three-way merging each file
patch=$(realpath $1); base=$2
old=/tmp/wt/rbo.$$; new=/tmp/wt/rbn.$$
git -C /repo worktree add -q --detach $old $base; git -C /repo worktree add -q --detach $new HEAD
trap 'git -C /repo worktree remove --force $old; git -C /repo worktree remove --force $new' EXIT
(cd $old && git apply $patch) || { echo "OLD-APPLY-FAIL $1"; exit 1; }
(cd $old && git add -A -N . && git diff --name-only HEAD) > /tmp/wt/rb_files.$$
conf=0
while read f; do
  mkdir -p $(dirname $new/$f)
  if ! git -C /repo cat-file -e $base:$f 2>/dev/null; then cp $old/$f $new/$f; continue; fi   # new file
  if [ ! -e $old/$f ]; then rm -f $new/$f; continue; fi                                        # deleted file
  git -C /repo show $base:$f > /tmp/wt/rb_base.$$
  if cmp -s /tmp/wt/rb_base.$$ $new/$f; then cp $old/$f $new/$f; continue; fi
  cp $new/$f /tmp/wt/rb_ours.$$
  if git merge-file /tmp/wt/rb_ours.$$ /tmp/wt/rb_base.$$ $old/$f; then cp /tmp/wt/rb_ours.$$ $new/$f; else cp /tmp/wt/rb_ours.$$ $new/$f; echo "CONFLICT $f"; conf=1; fi
done < /tmp/wt/rb_files.$$
if [ $conf = 1 ]; then cp -r $new /tmp/wt/rb_conflict_$(basename $1 .diff); echo "left tree in /tmp/wt/rb_conflict_$(basename $1 .diff)"; exit 1; fi
(cd $new && go build ./... 2>&1 | head -3; git add -A -N .; git diff HEAD > $patch; echo "REBASED $1: $(git diff HEAD --stat | tail -1)")
rm -f /tmp/wt/rb_*.$$
