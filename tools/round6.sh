#!/bin/sh
# usage: tools/round5.sh CNN  -- confirm the round-5 seeds of CNN and record the FIRST-CONTACT verdict of the
# checks as they are at this moment (before any strengthening). Investigation helper.
P=$1
cd /verif
for d in /tmp/wt/R6$P.out/[0-9]*; do
  [ -f "$d/meta.json" ] || continue
  k=$(basename $d); id="$P-r6-$k"
  [ -d seeded/$id ] && continue
  python3 - "$d" "$P" <<'PY'
import json,sys
d,p=sys.argv[1],sys.argv[2]
m=json.load(open(d+'/meta.json')); m['property']=p
m['demo_cmd']=m['demo_cmd'].split('   (')[0]
json.dump(m,open(d+'/meta.json','w'),indent=1)
PY
  out=$(python3 tools/confirm_seed.py $d $id 2>&1 | tail -1)
  case "$out" in CONFIRMED*) ;; *) echo "$id NOT CONFIRMED: $out"; echo "| $id | not confirmed | $out |" >> seeded/FIRST_CONTACT_R6.md; continue;; esac
  verdict() { res=$(GOACHECK=$1 PROBE_BASE=$2 tools/probe.sh seeded/$id/patch.diff $P 2>&1)
    rules=$(echo "$res" | grep -E "^(FAIL|UNDECIDED|ANCHOR-LOST)" | awk '{print $3}' | sort -u | tr '\n' ' ')
    if echo "$res" | grep -q "rc=1"; then echo "caught by $rules"; else echo "MISSED"; fi; }
  v=$(verdict ${R1BIN:-/tmp/wt/goacheck.r6base} HEAD)
  if [ -n "$HALF2" ]; then v="$v / after first-half strengthening: $(verdict bin/goacheck HEAD)"; fi
  echo "$id $v"
  echo "| $id | $v | $(python3 -c "import json;print(json.load(open('seeded/$id/meta.json'))['summary'][:160].replace('|','/'))") |" >> seeded/FIRST_CONTACT_R6.md
done
