#!/usr/bin/env python3
"""Run the pinned suite in a goa tree (default /repo) and compare with BASELINE.json stable_pass.
Investigation helper (used after fix: commits and for seeded variants); not part of any check."""
import json, subprocess, sys, os
repo = sys.argv[1] if len(sys.argv) > 1 else "/repo"
env = dict(os.environ, GOFLAGS="-mod=mod", GOPROXY="off", GOSUMDB="off", GOTOOLCHAIN="local")
p = subprocess.run(["go", "test", "-json", "-vet=off", "-count=1", "-timeout", "25m", "./..."],
                   cwd=repo, env=env, capture_output=True, text=True)
res = {}
for line in p.stdout.splitlines():
    try:
        e = json.loads(line)
    except Exception:
        continue
    if e.get("Test") and e.get("Action") in ("pass", "fail", "skip"):
        res[e["Package"] + "::" + e["Test"]] = e["Action"]
base = json.load(open("/root/.vp/BASELINE.json"))["stable_pass"]
bad = [t for t in base if res.get(t) != "pass"]
print("baseline stable_pass:", len(base), "now passing of those:", len(base) - len(bad))
for t in bad[:40]:
    print("  NOT-PASS", t, res.get(t))
sys.exit(1 if bad else 0)
