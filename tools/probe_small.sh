#!/bin/sh
# usage: tools/probe_small.sh [CNN ...]   -- replays the single-refactoring patches of seeded/benign-small/ (one
# behaviour-preserving refactoring each, made by sub-agents that saw only the property text) against all 20
# checks; every patch must stay silent. Not part of the registered thorough tier (120 patches x 20 checks take
# about two hours on one core; run several instances in parallel on disjoint property lists).
cd /verif
ALL="C01 C02 C03 C04 C05 C06 C07 C08 C09 C10 C11 C12 C13 C14 C15 C16 C17 C18 C19 C20"
for p in ${@:-$ALL}; do
  for f in seeded/benign-small/$p-*.diff; do
    out=$(tools/probe.sh $f $ALL 2>&1 | grep -E "^(FAIL|UNDECIDED|ANCHOR-LOST|PATCH|BROKEN)" | cut -c1-300 | sort -u)
    if [ -n "$out" ]; then echo "#### $f ALARM"; echo "$out"; else echo "#### $f silent"; fi
  done
done
