#!/opt/veriftools/pyvenv/bin/python3
import json, jsonschema, glob, sys
jsonschema.validate(json.load(open('/verif/MANIFEST.json')), json.load(open('/root/.vp/MANIFEST.schema.json')))
sch = json.load(open('/root/.vp/EVIDENCE.schema.json'))
for f in sorted(glob.glob('/verif/evidence/*.json')):
    jsonschema.validate(json.load(open(f)), sch)
print('manifest + %d evidence files valid' % len(glob.glob('/verif/evidence/*.json')))
