#!/bin/sh
# usage: tools/probe.sh <patch.diff> CNN [CNN...]
# Applies a seeded patch to a scratch worktree of /repo (outside /repo and /verif), runs the given
# checks against it with evidence redirected to a scratch dir, prints verdict lines, removes nothing
# persistent. Investigation helper; not part of any registered check.
patch=$1; shift
wt=/tmp/wt/probe.$$
git -C /repo worktree add -q --detach "$wt" "${PROBE_BASE:-HEAD}" || exit 2
trap 'git -C /repo worktree remove --force "$wt" >/dev/null 2>&1; rm -rf /tmp/probe-verif.$$' EXIT
git -C "$wt" apply "$(realpath "$patch")" || { echo "PATCH DOES NOT APPLY"; exit 2; }
mkdir -p /tmp/probe-verif.$$; cp /verif/known_findings.json /tmp/probe-verif.$$/ 2>/dev/null
cd /verif
[ -x bin/goacheck ] || bin/check C18 quick >/dev/null 2>&1
for p in "$@"; do
  out=$(${GOACHECK:-bin/goacheck} -prop "$p" -tier "${TIER:-quick}" -repo "$wt" -verif /tmp/probe-verif.$$ 2>&1); rc=$?
  echo "== $p rc=$rc"
  echo "$out" | grep -E "^(FAIL|UNDECIDED|ANCHOR-LOST|VIOLATION|BROKEN)" | cut -c1-400
done
