#!/usr/bin/env python3
"""usage: confirm_seed.py <srcdir with patch.diff, demo, meta.json> <seed id>
Confirms a seeded change independently in a scratch worktree of /repo (outside /repo and /verif):
demo passes on the clean tree; with the patch the tree builds, the pinned suite still passes and the
demo fails. On success copies the artefacts to /verif/seeded/<id>/ with what was run. Investigation helper."""
import json, os, shutil, subprocess, sys
src, sid = sys.argv[1], sys.argv[2]
meta = json.load(open(os.path.join(src, "meta.json")))
wt = f"/tmp/wt/confirm.{os.getpid()}"
env = dict(os.environ, GOFLAGS="-mod=mod", GOPROXY="off", GOSUMDB="off", GOTOOLCHAIN="local")
def sh(cmd, cwd=wt):
    p = subprocess.run(cmd, shell=True, cwd=cwd, env=env, capture_output=True, text=True, errors="replace")
    return p.returncode, (p.stdout + p.stderr)[-1500:]
subprocess.check_call(["git", "-C", "/repo", "worktree", "add", "-q", "--detach", wt, "HEAD"])
ran = {}
try:
    demo_src = os.path.join(src, meta["demo_file"])
    demo_dst = os.path.join(wt, meta["demo_dest"])
    import re
    cmd = re.sub(r"/tmp/wt/(R[23456])?%s(?![.\w])" % meta["property"], wt, meta["demo_cmd"])
    os.makedirs(os.path.dirname(demo_dst), exist_ok=True)
    shutil.copy(demo_src, demo_dst)
    rc, out = sh(cmd); ran["demo_clean"] = {"cmd": cmd, "rc": rc}
    if rc != 0: print("REJECT: demo fails on clean tree\n", out); sys.exit(1)
    os.path.exists(demo_dst) and os.remove(demo_dst)
    rc, out = sh(f"git apply {os.path.abspath(os.path.join(src,'patch.diff'))}")
    if rc != 0: print("REJECT: patch does not apply\n", out); sys.exit(1)
    rc, out = sh("go build ./..."); ran["build"] = {"rc": rc}
    if rc != 0: print("REJECT: does not build\n", out); sys.exit(1)
    rc, out = sh(f"python3 /verif/tools/suite.py {wt}"); ran["suite_with_patch"] = {"rc": rc, "tail": out.strip().splitlines()[0] if out.strip() else ""}
    if rc != 0:
        rc, out = sh(f"python3 /verif/tools/suite.py {wt}")  # retry once (port clashes with parallel suites)
        ran["suite_with_patch"] = {"rc": rc, "tail": out.strip().splitlines()[0] if out.strip() else "", "retried": True}
    if rc != 0: print("REJECT: suite fails with patch\n", out); sys.exit(1)
    os.makedirs(os.path.dirname(demo_dst), exist_ok=True)  # a demo may remove its own scratch directory
    shutil.copy(demo_src, demo_dst)
    rc, out = sh(cmd); ran["demo_patched"] = {"cmd": cmd, "rc": rc, "tail": out[-600:]}
    if rc == 0: print("REJECT: demo passes with patch"); sys.exit(1)
    dst = f"/verif/seeded/{sid}"
    os.makedirs(dst, exist_ok=True)
    shutil.copy(os.path.join(src, "patch.diff"), dst)
    shutil.copy(demo_src, os.path.join(dst, os.path.basename(meta["demo_file"]) + (".txt" if meta["demo_file"].endswith(".go") else "")))
    meta2 = {"id": sid, "property": meta["property"], "summary": meta.get("summary"), "why_breaks": meta.get("why_breaks"),
             "needs_to_manifest": meta.get("needs_to_manifest"), "files_changed": meta.get("files_changed"),
             "demo_file": os.path.basename(meta["demo_file"]) + (".txt" if meta["demo_file"].endswith(".go") else ""),
             "demo_dest": meta["demo_dest"], "demo_cmd": meta["demo_cmd"],
             "confirmed_by_me": ran, "detected_by": []}
    json.dump(meta2, open(os.path.join(dst, "meta.json"), "w"), indent=1)
    print("CONFIRMED", sid)
finally:
    subprocess.call(["git", "-C", "/repo", "worktree", "remove", "--force", wt])
