#!/bin/sh
# usage: tools/mutate.sh <file> <sed-expr> CNN [CNN...]   -- hand-made mutant probe on a scratch worktree (investigation helper)
file=$1; expr=$2; shift; shift
wt=/tmp/wt/mut.$$
git -C /repo worktree add -q --detach "$wt" HEAD || exit 2
trap 'git -C /repo worktree remove --force "$wt" >/dev/null 2>&1; rm -rf /tmp/probe-verif.$$' EXIT
sed -i "$expr" "$wt/$file"
if git -C "$wt" diff --quiet; then echo "MUTATION DID NOT CHANGE ANYTHING"; exit 2; fi
git -C "$wt" diff | grep '^[+-]' | grep -v '^+++\|^---' | cut -c1-160
(cd "$wt" && GOFLAGS=-mod=mod GOPROXY=off GOSUMDB=off GOTOOLCHAIN=local go build ./... ) || { echo "DOES NOT BUILD"; exit 2; }
mkdir -p /tmp/probe-verif.$$; cp /verif/known_findings.json /tmp/probe-verif.$$/
cd /verif
for p in "$@"; do
  out=$(bin/goacheck -prop "$p" -tier quick -repo "$wt" -verif /tmp/probe-verif.$$ 2>&1); rc=$?
  echo "== $p rc=$rc"; echo "$out" | grep -E "^(FAIL|UNDECIDED|ANCHOR-LOST|BROKEN)" | cut -c1-300
done
