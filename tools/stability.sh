#!/bin/sh
# usage: tools/stability.sh [N]  -- runs every claimed check N times (default 4) and reports any difference
# in its verdict lines between runs (the checks must be deterministic). Investigation helper.
n=${1:-4}
cd /verif
for p in $(python3 -c "import json;print(' '.join(c['property_id'] for c in json.load(open('MANIFEST.json'))['checks']))"); do
  ref=""
  for i in $(seq 1 $n); do
    out=$(bin/check $p quick 2>&1 | grep -v "^SUMMARY" | sed 's/wall=[0-9.]*s//' | md5sum)
    if [ -z "$ref" ]; then ref=$out; elif [ "$ref" != "$out" ]; then echo "UNSTABLE $p"; break; fi
  done
  echo "stable $p"
done
