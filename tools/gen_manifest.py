#!/usr/bin/env python3
"""Regenerates /verif/MANIFEST.json from the per-property table below (kept in one place so the
claimed list, the technique names and the not_applicable list stay consistent)."""
import json, subprocess

TRUST = ("Trusted base: go/packages + go/types type-checking of /repo's working tree, go/cfg and go/ssa "
         "construction, text/template/parse, the reviewed exception tables inside goacheck/props, and the "
         "assumption that generated code is produced only through the analysed templates and generator functions. "
         "Nothing is executed: no goa code, generator, generated code or test runs in a check.")

# id -> (technique, level text, design ref)
CLAIMED = {
 "C01": ("SSA path tables of Goify/fixReservedGo/NameScope.Unique/HashedUnique, datakeys and variant rules of the validation templates, write-pipeline gates, dominance-based division rule, prepared-copy and scoped-name rules, generator-wide lints (stale flags/variables, memo keys, recursion guards, slice reuse, template range elements)",
         "Static necessary conditions only, on the mechanisms C01's anchors name: reserved-word escape unavoidable, name allocation registers what it returns, no missing template key, written Go files parsed with errors propagated, no division by a zero length difference in example generation, kind checks on the type-resolved copies, generated variable names allocated through the scope, and generator-wide crash/duplication lints. Does not decide type-correctness of generated packages for all designs (translation validation is another family).",
         "DESIGN.md §3 C01"),
 "C02": ("pairing rule on the name tables, data-flow from endpoint fields to removeAttribute(s), call-order rule (every removal from a body follows the merge of inherited attributes), strconv conversion-template tables, wire-key rule over template accessors, SSA path tables of Vars/unescape/RequestDecoder, template range-element and required-key lints",
         "Static necessary conditions only: inverse name tables, total and disjoint attribute→location partition by construction, inverse conversion pairs per primitive, wire accessors keyed by wire-name fields on both sides, presence guards on the raw variable, path values unescaped once, request codec of the announced (sanitised) type. Does not decide equality of received and sent payloads.",
         "DESIGN.md §3 C02/C03"),
 "C03": ("template rules on status/headers/body order and tag selection, go/cfg order rule on dsl.Response, error-capture rule on the transform walkers, constant TABLE against net/http, shared wire-key/conversion/partition and removal-order rules, tag-pointer and stale-state lints on the response data builder",
         "Static necessary conditions only: status written = status of the response being encoded, after headers; tag selection by the element's tag value; default status before the response DSL; walker errors tested; status vocabulary equals net/http's; response body = result minus headers/cookies; wire keys and conversions as for C02; viewed tag pointers. Does not decide equality of received and sent results.",
         "DESIGN.md §3 C02/C03"),
 "C04": ("reaching-constants dataflow over the template data map (datakeys), abstract template expansion (variants) parsed with go/parser, keyword semantics tables, CONSUMES via reachability-scoped field reads, sibling-direction and loop-exit lints, SSA path table of ValidateFormat",
         "Static necessary conditions only: decode/validate gate before the endpoint in every handler variant, keyword templates emit the comparison their bound names, definite template flags at every execute site, every validation keyword consumed, consistent merge directions, complete recursion, required-list merging visits every element, must-validate decisions consult every collection and accumulate, runtime format predicates. Does not decide that emitted validators accept exactly the valid values.",
         "DESIGN.md §3 C04"),
 "C05": ("SSA path tables (default error encoder closure, status table, constructors), struct-literal field fidelity, stale-flag lint, template parse-tree rules (fallback arms, range-element rule, header constant agreement)",
         "Static necessary conditions only: one well-ordered response per path of the default error encoder, exhaustive default status table, fault wrapping of non-service errors, constructor flag triples and field fidelity, standard names of decoding/validation errors, fallback of undeclared errors in the generated encoder, no stale flag in the error→response resolution, no element confusion in template range bodies. Does not decide name-based dispatch end to end for arbitrary designs.",
         "DESIGN.md §3 C05"),
 "C06": ("abstract template expansion of the endpoint template for every requirement shape, parsed with go/parser and interpreted over the single predicate err==nil against the OR-of-ANDs semantics; edge-dominance facts on MethodExpr.Finalize; SSA path table of the location inference; sibling and slice-reuse lints",
         "Static necessary conditions only: any-requirement/all-schemes gate for all outcome vectors of 24 requirement shapes, own scheme literal and credential per callback, inheritance order (NoSecurity, method, service, API), credential location table, prefix stripping present, identical scope validators, no shared scheme slices. Does not decide arbitrary scheme combinations at run time nor that credential strings arrive unmodified.",
         "DESIGN.md §3 C06"),
 "C07": ("callee/field identity of the route source, verb TABLE (DSL constructors vs builder switch vs document slots), CONSUMES over HTTPEndpointExpr via reachability-scoped field reads, walker/collection agreement lint, memo-key / stale-flag / required-key lints",
         "Static necessary conditions only: server and both documents share FullPaths/Method; every mountable verb has a case where the format has a slot; every request location the server reads is read by the builders; required flags and `in` literals are taken from the collection being walked; same has-body predicate; base path decided per route; required flags propagated under the key they are looked up with. Does not decide validity against the OpenAPI schemas nor JSON≡YAML.",
         "DESIGN.md §3 C07"),
 "C08": ("AST data-flow rules on projectSingle/projectRecursive, edge-dominance nil facts, abstract expansion of the viewed-validation template, header-constant agreement across templates, stale-loop-state lints",
         "Static necessary conditions only: projection draws names, type and required list from the view; unknown views are refused (Go and generated validation); one view header constant on both sides; projection memo keyed by the projecting view; no stale per-iteration view state in the generators; view overrides copied whenever present. Does not decide wire content for values nor Project's recursion on all graphs.",
         "DESIGN.md §3 C08"),
 "C09": ("map-iteration-order classification (reviewed table), sort-comparator lint, forbidden-call scan, SSA path table of File.Render, reachability-scoped who-may-produce rule, template parse-tree order, go/cfg dominance and error-gate polarity",
         "Static necessary conditions only: no order-sensitive map iteration or mis-indexed comparator in generator packages, no ambient nondeterminism, seeded example randomizer, existing example files never opened, append-only opening, gen directories wiped before regeneration, sorted output list, write-pipeline errors tested with the right polarity. Cannot prove byte equality across processes.",
         "DESIGN.md §3 C09"),
 "C10": ("AST data-flow rule on protoBufMessageDef, validator loop/flag lints, SSA path tables of the gRPC handlers, template parse-tree tables (stream kinds, strconv conversion branches), memo-key agreement lint",
         "Static necessary conditions only: field numbers printed from the attribute being printed; gRPC validators visit every attribute; decode ≺ endpoint ≺ encode ≺ headers with gates in the runtime handlers; streaming keywords driven by the right stream-kind constants; strconv family/bit size/cast per primitive in the metadata conversion templates; seen-sets keyed consistently. Does not decide proto3 well-formedness nor value round trips.",
         "DESIGN.md §3 C10"),
 "C11": ("go/cfg ordering, gate and dominance rules on eval.RunDSL; loop-exit and dispatch tables; SSA path table of Record",
         "Static necessary conditions only: global phase barrier and error gates between phases on every path of RunDSL, whole-list loops, re-reading of roots registered during execution, no early exit from the set runners, interface/method dispatch pairing, dependency callbacks that depend on their argument. Does not decide that Roots() is a topological sort with cycle detection for every graph.",
         "DESIGN.md §3 C11"),
 "C12": ("type-assertion guard rule, variadic-length dataflow (lower-bound abstract interpretation over go/cfg), nil-returning-lookup dereference rule with edge-dominance facts, validator wiring / loop-exit / stale-flag / recursion-guard lints",
         "Static necessary conditions only, over every DSL function and expr validator: no unguarded single-value assertion, no constant index of a variadic list beyond its proven length, no dereference of a nil-returning lookup or nil-compared pointer without a dominating test, validators wired with results consumed, validation loops without silent early exit, search flags reset per iteration, recursion guards passed through. Does not prove termination or absence of all panics.",
         "DESIGN.md §3 C12"),
 "C13": ("ownership/aliasing rule on the dup family, type-switch and Kind tables, dominance of cycle memos, sort-comparator and map-order lints, parameter pass-through, SSA path tables",
         "Static necessary conditions only: no structural aliasing in the dup family, exhaustive kind tables, memo-before-recursion, order-free hashing (comparators, map ranges), Equal defined through Hash with one flag triple, flags passed through every recursive hash call, Hash's documented flag semantics on hashUserType. Does not decide equality of copy and original on all graphs nor hash collisions.",
         "DESIGN.md §3 C13"),
 "C14": ("CONSUMES via reachability-scoped field reads, keyword fidelity tables over assignments and helper calls, flag tables of the Swagger 2 helpers, keyword-template variants, walker/collection and must-validate lints",
         "Static necessary conditions only: schemas and validators are translations of the same ValidationExpr that agree keyword by keyword (consumption, like-named fidelity, inclusive/exclusive semantics, required lists), and the decoder returns the validation errors it computes. Does not decide acceptance equivalence on values.",
         "DESIGN.md §3 C14"),
 "C15": ("SSA path tables (media-type→codec decision tables, effect traces), type-switch tables",
         "Static necessary conditions only: the codec decision tables of ResponseEncoder/ResponseDecoder/RequestDecoder/negotiate agree with one reference table (hence with each other), the announced media type belongs to the returned encoder on every path, no nil encoder, 415 wiring, SetContentType composition table. Does not decide byte-level round trips, Accept grammar or third-party codecs.",
         "DESIGN.md §3 C15"),
 "C16": ("SSA path tables of the muxer methods (effect traces: map keys, lock/unlock, router calls), loops unrolled once",
         "Static necessary conditions only: one key shape for the wildcard table at its store and loads, rewritten pattern registered = pattern keyed, every captured value unescaped exactly once, pattern reported = pattern registered, mount-time state written under the mutex, well-formed 404 handler, no middleware dropped. Does not decide chi's matching nor percent-decoding being the inverse of URL construction.",
         "DESIGN.md §3 C16"),
 "C17": ("constant-table agreement, SSA path table of ValidateFormat against per-format predicates, regexp/syntax anchoring, lock-set over path effects of ValidatePattern",
         "Static necessary conditions only: one format vocabulary across design, runtime and generated constants; each format's verdict is 'accept' exactly when the parser that names it succeeded (ip/ipv4/ipv6 relations by the same regexp with opposite polarity); anchored validator regexes; pattern cache read/written under its lock, keyed by the pattern, verdict tied to the compiled pattern. Does not decide the language of the stdlib parsers.",
         "DESIGN.md §3 C17"),
 "C19": ("SSA path tables of the middleware closures, interceptors, option constructors, samplers and the response capture",
         "Static necessary conditions only: downstream receives the derived context on every path; request-ID selection table (trust flag, truncation, fresh-iff-empty, key); mirrored trace extraction/injection tables; sampler consulted only without inbound trace ID; fixed-sampler 0/100 rows; capture records the forwarded status, the returned byte count and the implicit 200; options reach their own fields. Does not decide uniqueness of IDs, sampling statistics or run-time call chains.",
         "DESIGN.md §3 C19"),
 "C18": ("SSA path tables (decision tables over flag atoms), struct-literal field fidelity",
         "Static necessary conditions only: MergeErrors' per-field merge operators and nil rows on every SSA path, the exhaustive HTTP status / gRPC code / client classification decision tables, and like-named field fidelity of the four wire conversions. Does not prove associativity as a law nor value-level round trips.",
         "DESIGN.md §3 C18"),
 "C20": ("shared-write inventory on SSA (globals, captured variables of escaping closures) with a must-hold lock dataflow; atomic-field consistency; receiver-write scan of shared types",
         "Static necessary conditions only (hold for every schedule): every request-time write to a package variable or to a variable captured by an escaping closure is locked or atomic; atomically accessed fields are never accessed plainly; lock-protected globals are read under a lock; request-time methods of shared types do not write receiver state. Does not decide race freedom of generated code for every design, user code or third parties.",
         "DESIGN.md §3 C20"),
}
PENDING_REASON = "static rules for this property are designed (DESIGN.md §3) but not built yet in this revision; not claimed until its check exists"

def main():
    props = [json.loads(l) for l in open('/verif/properties.jsonl')]
    checks, na = [], []
    for p in props:
        pid = p['id']
        if pid in CLAIMED:
            tech, text, ref = CLAIMED[pid]
            checks.append({
                "property_id": pid,
                "quick_cmd": f"bin/check {pid} quick",
                "thorough_cmd": f"bin/check {pid} thorough",
                "evidence_file": f"evidence/{pid}.json",
                "replay_cmd_template": f"bin/check {pid} quick --replay {{path}}",
                "engine": "goacheck",
                "level_claimed": {"category": "other", "text": text, "design_ref": ref},
                "level_note": TRUST,
                "technique": "static analysis: " + tech + "; plus property-independent deviance lints (control-flow slips, sibling-field parity, name roles, tag and argument-name agreement, copy completeness, template chains) over the functions and templates of the property's anchor files, each lint self-tested on an embedded positive example",
            })
        else:
            na.append({"property_id": pid, "reason": NA.get(pid, PENDING_REASON)})
    m = {
        "version": 1,
        "setup_cmd": "cd goacheck && GOFLAGS=-mod=mod GOPROXY=off GOSUMDB=off GOWORK=off GOTOOLCHAIN=local go build -o ../bin/goacheck .",
        "hooks": {
            "guard": "verif",
            "enable": "none needed: the checks are static and read /repo's sources; no hook or instrumentation commit exists",
            "baseline_off_cmd": "cd /repo && GOFLAGS=-mod=mod GOPROXY=off GOSUMDB=off GOTOOLCHAIN=local go test -json -vet=off -count=1 -timeout 25m ./...",
            "source_commits": [],
            "add_only": True,
        },
        "engines": [{
            "name": "goacheck",
            "path": "goacheck",
            "serves_properties": sorted(CLAIMED),
            "kind_free_text": "repository-specific static analyser (go/packages + go/types + go/cfg + go/ssa + text/template/parse); decides rule instances per property, prints one line per obligation, writes evidence/<id>.json",
        }],
        "checks": checks,
        "not_applicable": na,
        "notes": "Family: static analysis. Every claimed property is at level 'other': the check decides named structural necessary conditions of the property (DESIGN.md §3) and states what it does not decide. Known findings: known_findings.json. Seeded changes used to test the checks: seeded/.",
    }
    json.dump(m, open('/verif/MANIFEST.json', 'w'), indent=1)
    print("claimed", len(checks), "not_applicable", len(na))

NA = {}
if __name__ == '__main__':
    main()
