#!/bin/sh
# usage: tools/lintprobe.sh <patch.diff> [goacheck debug flags, default -lints]
# Applies a patch to a scratch worktree and runs a goacheck debug mode on it. Investigation helper.
patch=$1; shift
wt=/tmp/wt/lprobe.$$
git -C /repo worktree add -q --detach "$wt" HEAD || exit 2
trap 'git -C /repo worktree remove --force "$wt" >/dev/null 2>&1' EXIT
git -C "$wt" apply "$(realpath "$patch")" || { echo "PATCH DOES NOT APPLY"; exit 2; }
/verif/bin/goacheck -repo "$wt" ${@:--lints} 2>&1 | sed "s#$wt/##g" | cut -c1-400
