#!/usr/bin/env python3
"""Regenerates the reference tables of the checker (goacheck/an/reffuncs.go, refsyms.go, refinits.go) from the
tree in /repo: the functions, unexported-and-exported struct fields, package variables and their initialisers that
the rules were confirmed against. Run after a "fix:" commit to /repo, then rebuild (bin/check does)."""
import subprocess, collections, json
G = "/verif/bin/goacheck"
def run(flag):
    return subprocess.run([G, flag, "-repo", "/repo"], capture_output=True, text=True, check=True).stdout
def q(s): return json.dumps(s, ensure_ascii=False)
# functions
rows = [l.split("\t") for l in run("-listfuncs").splitlines() if "\t" in l]
with open("/verif/goacheck/an/reffuncs.go", "w") as f:
    f.write("package an\n\n// referenceFuncs: the module functions of the reference tree with their signatures\n// (generated with `goacheck -listfuncs`). A function that is not listed was\n// introduced later: the path-table builder enters its body instead of treating the\n// call as opaque (an extracted helper does not change the caller's table), and a\n// lost anchor adopts the only new function of its package with its signature (a rename).\nvar referenceFuncs = map[string]string{\n")
    for n, s in sorted(set((r[0], r[1]) for r in rows)):
        f.write("\t%s: %s,\n" % (q(n), q(s)))
    f.write("}\n")
# fields and globals
fields, globs = collections.OrderedDict(), collections.OrderedDict()
for l in run("-listsyms").splitlines():
    p = l.split("\t")
    if p[0] == "F": fields.setdefault(p[1], {})[p[2]] = p[3]
    elif p[0] == "G": globs.setdefault(p[1], {})[p[2]] = p[3]
with open("/verif/goacheck/an/refsyms.go", "w") as f:
    f.write("package an\n\n// referenceFields / referenceGlobals: struct fields and package-level variables of\n// the reference tree with their types (generated with `goacheck -listsyms`); see canon.go.\nvar referenceFields = map[string]map[string]string{\n")
    for k in sorted(fields):
        f.write("\t%s: {%s},\n" % (q(k), ", ".join("%s: %s" % (q(a), q(b)) for a, b in sorted(fields[k].items()))))
    f.write("}\n\nvar referenceGlobals = map[string]map[string]string{\n")
    for k in sorted(globs):
        f.write("\t%s: {%s},\n" % (q(k), ", ".join("%s: %s" % (q(a), q(b)) for a, b in sorted(globs[k].items()))))
    f.write("}\n")
open("/verif/goacheck/an/refinits.go", "w").write(run("-listinits"))
subprocess.check_call(["gofmt", "-w", "/verif/goacheck/an/reffuncs.go", "/verif/goacheck/an/refsyms.go", "/verif/goacheck/an/refinits.go"])
print("reference tables regenerated from /repo", subprocess.run(["git","-C","/repo","rev-parse","--short","HEAD"],capture_output=True,text=True).stdout.strip())
